"""MANIFEST.setup_cmd: syntax-check every TLA+ module and build the harness, offline."""
import glob
import os
import vcore
from vcore import log


def run():
    ok = True
    for m in sorted(glob.glob(os.path.join(vcore.SPEC, "*.tla"))):
        good, out = vcore.sany(os.path.basename(m))
        log("[sany] %s: %s" % (os.path.basename(m), "ok" if good else "FAILED"))
        if not good:
            log(out[-2000:])
            ok = False
    try:
        vcore.build_harness()
    except vcore.ToolError as e:
        log("setup: %s" % e)
        ok = False
    vcore.cleanup()
    return 0 if ok else 2
