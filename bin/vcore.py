"""Core of the /verif check driver: TLC invocation, behaviour generation, harness
invocation, evidence, known findings, exit codes."""
import hashlib
import json
import os
import re
import shutil
import subprocess
import sys
import time

VERIF = os.path.dirname(os.path.dirname(os.path.abspath(__file__)))
SPEC = os.path.join(VERIF, "spec")
HARNESS = os.path.join(VERIF, "harness")
PDBH = os.path.join(HARNESS, "target", "debug", "pdbh")
EVIDENCE = os.path.join(VERIF, "evidence")
REPLAYS = os.path.join(VERIF, "replays")
KNOWN = os.path.join(VERIF, "known_findings.json")

SEED = int(os.environ.get("VERIF_SEED", "1") or "1")
NCPU = os.cpu_count() or 4


CURRENT = None


class ToolError(Exception):
    pass


_scratch = None


def scratch():
    global _scratch
    if _scratch is None:
        base = os.environ.get("VERIF_SCRATCH")
        if not base:
            root = "/dev/shm" if os.path.isdir("/dev/shm") else "/tmp"
            base = os.path.join(root, "verif.%d" % os.getpid())
        os.makedirs(base, exist_ok=True)
        _scratch = base
    return _scratch


def cleanup():
    global _scratch
    if _scratch and os.path.isdir(_scratch):
        shutil.rmtree(_scratch, ignore_errors=True)
    _scratch = None


def log(*a):
    print(*a, flush=True)


# --------------------------------------------------------------------------
# harness

_built = False


def build_harness():
    global _built
    if _built:
        return
    t0 = time.time()
    env = dict(os.environ)
    env["CARGO_NET_OFFLINE"] = "true"
    p = subprocess.run(["cargo", "build", "--offline"], cwd=HARNESS, env=env,
                       stdout=subprocess.PIPE, stderr=subprocess.STDOUT, text=True)
    if p.returncode != 0 or not os.path.exists(PDBH):
        sys.stdout.write(p.stdout[-4000:])
        raise ToolError("harness build failed")
    _built = True
    log("[build] harness built against /repo working tree in %.1fs" % (time.time() - t0))


def pdbh(cmd, args, timeout=1800, ok_codes=(0, 1)):
    """Run a harness command.  Exit code 1 = the harness saw violations (data)."""
    build_harness()
    argv = [PDBH, cmd]
    for k, v in args.items():
        if v is True:
            argv.append("--" + k)
        elif v is False or v is None:
            continue
        else:
            argv += ["--" + k, str(v)]
    env = dict(os.environ)
    env["VERIF_SCRATCH"] = os.path.join(scratch(), "h%d" % int(time.time() * 1000 % 100000000))
    try:
        p = subprocess.run(argv, env=env, stdout=subprocess.PIPE, stderr=subprocess.PIPE,
                           text=True, timeout=timeout)
    except subprocess.TimeoutExpired:
        raise ToolError("harness command timed out: %s" % cmd)
    finally:
        shutil.rmtree(env["VERIF_SCRATCH"], ignore_errors=True)
    if p.returncode not in ok_codes:
        sys.stdout.write(p.stdout[-2000:])
        sys.stdout.write(p.stderr[-4000:])
        raise ToolError("harness command %s failed with code %d" % (cmd, p.returncode))
    return p


def read_ndjson(path):
    out = []
    with open(path) as f:
        for line in f:
            line = line.strip()
            if line:
                out.append(json.loads(line))
    return out


def write_ndjson(path, rows):
    with open(path, "w") as f:
        for r in rows:
            f.write(json.dumps(r, separators=(",", ":")) + "\n")


# --------------------------------------------------------------------------
# TLC

TLC_JAR = "/opt/veriftools/tla/tla2tools.jar"
_tlc_n = 0


def _tlc_cmd(module, cfg, extra, workers, heap="8g", deque=False):
    global _tlc_n
    _tlc_n += 1
    meta = os.path.join(scratch(), "tlc%d" % _tlc_n)
    opts = ["-Xss1g", "-Xmx" + heap, "-XX:+UseParallelGC"]
    if deque:
        opts.append("-Dtlc2.tool.queue.IStateQueue=StateDeque")
    env = dict(os.environ)
    env["JAVA_TOOL_OPTIONS"] = " ".join(opts)
    argv = ["tlc", "-workers", str(workers), "-metadir", meta, "-cleanup", "-noGenerateSpecTE",
            "-config", cfg] + extra + [module]
    return argv, env, meta


def tlc_check(module, cfg, workers=None, timeout=3600, expect_violation=False, coverage=False,
              heap="12g"):
    """Exhaustive model check.  Returns dict(ok, states, distinct, depth, violated, out)."""
    workers = workers or NCPU
    extra = ["-coverage", "1"] if coverage else []
    argv, env, meta = _tlc_cmd(module, cfg, extra, workers, heap=heap)
    t0 = time.time()
    try:
        p = subprocess.run(argv, cwd=SPEC, env=env, stdout=subprocess.PIPE, stderr=subprocess.STDOUT,
                           text=True, timeout=timeout)
    except subprocess.TimeoutExpired:
        shutil.rmtree(meta, ignore_errors=True)
        raise ToolError("TLC timed out on %s" % cfg)
    shutil.rmtree(meta, ignore_errors=True)
    out = p.stdout
    res = {"cfg": cfg, "wall_s": round(time.time() - t0, 1), "out": out}
    m = re.search(r"(\d+) states generated, (\d+) distinct states found, (\d+) states left on queue", out)
    if m:
        res["generated"], res["distinct"] = int(m.group(1)), int(m.group(2))
    else:
        res["generated"], res["distinct"] = 0, 0
    m = re.search(r"depth of the complete state graph search is (\d+)", out)
    res["depth"] = int(m.group(1)) if m else 0
    m = re.search(r"Error: Invariant (\w+) is violated", out)
    res["violated"] = m.group(1) if m else None
    if res["violated"] is None:
        m = re.search(r"Error: (Action property|Temporal properties|Deadlock)[^\n]*", out)
        if m:
            res["violated"] = m.group(0)
    res["completed"] = "Model checking completed. No error has been found." in out
    if coverage:
        cov = {}
        for m in re.finditer(r"^<(\w+) line \d+, col \d+ to line \d+, col \d+ of module (\w+)>: (\d+):(\d+)", out, re.M):
            cov[m.group(1)] = cov.get(m.group(1), 0) + int(m.group(4))
        res["coverage"] = cov
    if not res["completed"] and res["violated"] is None:
        sys.stdout.write(out[-3000:])
        raise ToolError("TLC failed on %s (no result)" % cfg)
    res["ok"] = res["completed"]
    return res


def tlc_simulate(module, cfg, num, depth, seed, timeout=1800):
    """Simulation; returns (behaviours printed through REPLAY lines, states generated, out)."""
    argv, env, meta = _tlc_cmd(module, cfg, ["-simulate", "num=%d" % num, "-depth", str(depth),
                                             "-seed", str(seed)], 1, heap="4g")
    try:
        p = subprocess.run(argv, cwd=SPEC, env=env, stdout=subprocess.PIPE, stderr=subprocess.STDOUT,
                           text=True, timeout=timeout)
    except subprocess.TimeoutExpired:
        shutil.rmtree(meta, ignore_errors=True)
        raise ToolError("TLC simulation timed out on %s" % cfg)
    shutil.rmtree(meta, ignore_errors=True)
    out = p.stdout
    if re.search(r"Error: Invariant (\w+) is violated", out):
        sys.stdout.write(out[-3000:])
        raise ToolError("simulation of %s hit an invariant violation: the spec itself is wrong" % cfg)
    behs, seen = [], set()
    for line in out.splitlines():
        if line.startswith('"REPLAY '):
            try:
                s = json.loads(line)[7:]
            except Exception:
                continue
            h = hashlib.sha1(s.encode()).hexdigest()
            if h in seen:
                continue
            seen.add(h)
            behs.append(json.loads(s))
    m = re.search(r"The number of states generated: (\d+)", out)
    gen = int(m.group(1)) if m else 0
    if not behs:
        sys.stdout.write(out[-3000:])
        raise ToolError("simulation of %s produced no behaviours" % cfg)
    return behs, gen, out


def tlc_trace(module, cfg, trace_file, timeout=1800, extra_env=None):
    """Trace validation: TLC checks that the recorded trace is a behaviour of the trace spec.
    Returns dict(accepted, matched, total, out)."""
    argv, env, meta = _tlc_cmd(module, cfg, [], 1, heap="4g", deque=True)
    env["TRACE"] = trace_file
    if extra_env:
        env.update(extra_env)
    try:
        p = subprocess.run(argv, cwd=SPEC, env=env, stdout=subprocess.PIPE, stderr=subprocess.STDOUT,
                           text=True, timeout=timeout)
    except subprocess.TimeoutExpired:
        shutil.rmtree(meta, ignore_errors=True)
        raise ToolError("TLC trace validation timed out on %s" % trace_file)
    shutil.rmtree(meta, ignore_errors=True)
    out = p.stdout
    res = {"out": out}
    m = re.search(r"(\d+) states generated, (\d+) distinct states found", out)
    res["generated"] = int(m.group(1)) if m else 0
    res["distinct"] = int(m.group(2)) if m else 0
    m = re.search(r'TRACE-RESULT matched=(\d+) total=(\d+)', out)
    if m:
        res["matched"], res["total"] = int(m.group(1)), int(m.group(2))
    else:
        res["matched"], res["total"] = -1, -1
    m = re.search(r"Error: Invariant (\w+) is violated", out)
    res["violated"] = m.group(1) if m else None
    finished = "Model checking completed" in out or "Finished in" in out
    if res["matched"] < 0 and res["violated"] is None:
        sys.stdout.write(out[-3000:])
        raise ToolError("trace validation produced no result for %s" % trace_file)
    res["accepted"] = (res["violated"] is None and res["matched"] == res["total"] and finished)
    return res


def sany(module):
    p = subprocess.run(["tla-sany", module], cwd=SPEC, stdout=subprocess.PIPE, stderr=subprocess.STDOUT, text=True)
    ok = p.returncode == 0 and "Semantic errors" not in p.stdout and "***Parse Error***" not in p.stdout \
        and "Fatal errors" not in p.stdout
    return ok, p.stdout


# --------------------------------------------------------------------------
# known findings, violations, evidence

def load_known():
    if not os.path.exists(KNOWN):
        return []
    with open(KNOWN) as f:
        return json.load(f).get("findings", [])


class Report:
    """Collects what a check run covered and what it found."""

    def __init__(self, prop, tier):
        self.prop = prop
        self.tier = tier
        self.t0 = time.time()
        self.states = 0
        self.transitions = 0
        self.model_runs = []
        self.behaviours = 0
        self.traces = 0
        self.evaluations = 0
        self.nontrivial = set()
        self.samples = []
        self.violations = []   # (what, replay_path)
        global CURRENT
        CURRENT = self         # (bin/check: violations recorded before a tool error are still reported)
        self.known_hits = []
        self.assumptions = []
        self.extra = {}
        self.rule = ""
        self.known = [k for k in load_known() if k.get("property") == prop and "signature" in k]

    def add_model(self, res, label=None):
        if res.get("cached"):
            # behaviours generated by TLC in an earlier run (same spec hash): not explored in this run
            self.extra["directed_generation"] = {"cached": True, "distinct_when_generated": res.get("distinct", 0)}
            return
        self.states += res.get("distinct", 0)
        self.transitions += res.get("generated", 0)
        self.model_runs.append({"cfg": label or res.get("cfg"), "distinct": res.get("distinct", 0),
                                "generated": res.get("generated", 0), "depth": res.get("depth", 0),
                                "wall_s": res.get("wall_s", 0)})

    def sample(self, s):
        if len(self.samples) < 4:
            self.samples.append(s)

    def violation(self, what, replay_obj, ctx=None):
        """Register a violation: known finding (by signature) or a new one."""
        text = what
        for k in self.known:
            if re.search(k["signature"], text):
                pred = k.get("requires")
                if pred and ctx is not None and not re.search(pred, ctx):
                    continue
                if k["id"] not in [h[0] for h in self.known_hits]:
                    self.known_hits.append((k["id"], k.get("what", k.get("description", ""))))
                return False
        os.makedirs(REPLAYS, exist_ok=True)
        h = hashlib.sha1(json.dumps(replay_obj, sort_keys=True).encode()).hexdigest()[:12]
        path = os.path.join(REPLAYS, "%s_%s.json" % (self.prop, h))
        with open(path, "w") as f:
            json.dump(replay_obj, f)
        self.violations.append((what, path))
        return True

    def finish(self):
        cov = {
            "states": self.states,
            "transitions": self.transitions,
            "traces_validated_against_impl": self.traces,
            "behaviours_replayed_into_impl": self.behaviours,
            "evaluations": self.evaluations,
            "distinct_nontrivial": len(self.nontrivial),
            "rule": self.rule,
            "samples": self.samples or ["(none)"],
            "model_runs": self.model_runs,
        }
        cov.update(self.extra)
        ev = {
            "property_id": self.prop,
            "tier": self.tier,
            "seed": SEED,
            "level": "model_checking",
            "coverage": cov,
            "assumptions": self.assumptions,
            "wall_s": round(time.time() - self.t0, 1),
            "violations": len(self.violations),
        }
        os.makedirs(EVIDENCE, exist_ok=True)
        with open(os.path.join(EVIDENCE, "%s.json" % self.prop), "w") as f:
            json.dump(ev, f, indent=1)
        for kid, what in self.known_hits:
            log("KNOWN-FINDING: property=%s %s (%s)" % (self.prop, what, kid))
        for what, path in self.violations:
            log("VIOLATION property=%s replay=%s" % (self.prop, path))
            log("  " + what[:600])
        log("[%s] tier=%s states=%d transitions=%d behaviours=%d traces=%d evaluations=%d nontrivial=%d wall=%.0fs violations=%d"
            % (self.prop, self.tier, self.states, self.transitions, self.behaviours, self.traces,
               self.evaluations, len(self.nontrivial), time.time() - self.t0, len(self.violations)))
        return 1 if self.violations else 0


def beh_hash(b):
    return hashlib.sha1(json.dumps(b, sort_keys=True).encode()).hexdigest()[:16]
