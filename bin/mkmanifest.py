#!/usr/bin/env python3
"""Regenerates /verif/MANIFEST.json from the table below (single source for the claims)."""
import json, os
V = os.path.dirname(os.path.dirname(os.path.abspath(__file__)))
HOOK_COMMITS = ["b4cd205", "8b1d98b", "2561f25", "36a713e", "492ded8", "4d59119"]
NOTE = ("bounded constants in TLC; conformance of the implementation is sampled (generated behaviours, recorded traces, "
        "crash images at hook events), the stepping API is trusted to drive the stages like the worker loops")
CLAIMS = {
 "C01": ("Pdb.tla model-checked by TLC (every interleaving of commits, pipeline sub-steps and clean restarts for bounded constants, necessity configs for the overlay id tests); TLC-simulated behaviours replayed step by step into the real Db with every read and size compared; recorded random histories (hook + client events) validated against the spec by TLC",
         "TLC model checking of Pdb.tla + behaviour replay + TLC trace validation"),
 "C02": ("Pdb.tla with Crash enabled in every state incl. mid-record, torn append and during recovery (RecoveredIsPrefix); generated behaviours replayed with a crash image taken at every hook event inside every pipeline step, each opened by the real code and compared with the model's prefix states; recorded histories with crashes validated by TLC",
         "TLC model checking of Pdb.tla crash actions + crash-image replay + TLC trace validation"),
 "C03": ("Pdb.tla: CleanCloseKeepsAll/DrainedIsAll and SyncedSurvive over all pipeline states; behaviours ending in close+reopen replayed; sequential and multi-threaded recorded runs (drop right after the last commit) validated by TLC, which requires the queue drained and all records in synced files at close and the full history after reopen; crash images bounded below by the model's durable count",
         "TLC model checking of Pdb.tla + behaviour replay + TLC trace validation (threaded and stepping)"),
 "C07": ("Pdb.tla rc kinds: count>0 => readable, drained => (readable <=> count>0), checked over all histories x schedules x restarts/crashes; behaviours replayed with value iteration compared with the model's counts when drained; recorded traces with Counts events validated by TLC",
         "TLC model checking of Pdb.tla (rc kinds) + behaviour replay + TLC trace validation"),
 "C08": ("Pdb.tla Reject leaves all variables unchanged (invalid op at any position, background-error state); behaviours with rejected calls replayed: reads, value-entry counts and queue/overlay sizes must be unchanged by a rejected call, immediately, after drain and after reopen",
         "TLC model checking of Pdb.tla + behaviour replay + TLC trace validation"),
 "C05": ("Pdb.tla with a reader process whose lookup is three separate steps, interleaved with committers and all worker sub-steps (ReadInterval, LayerHandOver; necessity configs swap the hand-over order); runs with the four real worker threads, 2 committers and 3 readers are recorded and validated by TLC: every hook event must match the fine-grained action at its linearization point and every read must satisfy interval semantics",
         "TLC model checking of Pdb.tla (reader process) + TLC trace validation of threaded runs"),
 "C12": ("Pdb.tla PowerLoss in every state (any prefix of the unsynced log tail, torn record, any subset of unflushed table locations) with RecoveredIsPrefix and SyncedSurvive, necessity configs for both ordering rules; on the implementation fdatasync/fsync/msync/ftruncate/unlink are interposed and TLC checks on every recorded run that no record is applied before its log bytes were synced and no log is truncated or deleted before the tables it fed were msync'ed; crash images of recorded runs are cut down to what a power loss may leave (files as at their last msync in any combination, log tails cut or torn) and the recovered state must contain every synced record",
         "TLC model checking of Pdb.tla (PowerLoss) + TLC trace validation of observed file operations"),
 "C13": ("Pdb.tla Corrupt actions (truncate at/inside any record, invalid record, missing file) followed by recovery with RecoveredIsPrefix and NotOlderThanTables; TLC-generated damage steps are concretized on real log files at byte level and the real open must not panic and must yield the model's prefix; two damage classes the design cannot handle are a recorded known finding (F12)",
         "TLC model checking of Pdb.tla (Corrupt actions) + behaviour replay on damaged real log files"),
 "C16": ("Pdb.tla IoFail actions (append torn/absent, enact after any subset of writes, other steps) and DropErr with ReadLatest in the error state and prefix recovery containing everything synced; behaviours replayed with real injected I/O failures (n-th file operation of the step fails), the failing call must return the error, commits must then be refused, reads unchanged, reopen within bounds",
         "TLC model checking of Pdb.tla (IoFail actions) + behaviour replay with injected I/O failures"),
 "C04": ("Pdb.tla cursor actions (abstract ordered-map iterator Start/End/At/Seeked over the latest committed state) checked with the pipeline model; TLC-generated behaviours with seek/first/last/next/prev, direction changes and commits/pipeline steps between cursor calls replayed through a real BTreeIterator; long recorded histories over larger key universes with the iterator open across commits validated by TLC (every returned key/value)",
         "TLC model checking of Pdb.tla (cursor actions) + behaviour replay + TLC trace validation"),
 "C15": ("Workers.tla: clients, four workers and the dropping thread with explicit mutexes and condition variables (a notify without the waiter's mutex can be lost): deadlock freedom with an I/O fault, liveness (commit returns, all logged, drop terminates) under weak fairness, necessity configs for the three repairs; the three counterexample schedules are forced on the real threads through the hook sink and must not hang; commit storms / 5 MiB transactions / immediate drops under a watchdog",
         "TLC model checking of Workers.tla (deadlock + liveness) + forced schedules replayed on the real threads"),
 "C17": ("Admin.tla: TLC enumerates every valid column option record as a round-trip behaviour (create, reopen with the same record, reopen with each single field changed) and random administration histories (add/drop/reset/clear column, wrong column count, missing database, crash images with pending logs); all replayed into the real code with file fingerprints for failed opens and contents of every plain column after every step",
         "TLC enumeration/simulation of Admin.tla + behaviour replay"),
 "C18": ("Lock.tla: actors (handles of one process and a child process) x open (lock then recovery) / commit / drop / die, AtMostOneLive, Reopenable and FailedOpenChangesNothing model-checked; generated behaviours replayed with real handles and child processes (SIGKILL for die), failed opens must return Error::Locked and leave all files byte-identical; racing opens from 4 threads",
         "TLC model checking of Lock.tla + behaviour replay with threads and child processes"),
 "C20": ("Migrate.tla: all source histories x option pairs x overwrite x forced selection with NoKeyLost / CountsCarryOver / SourceKept model-checked; generated behaviours replayed through parity_db::migrate with both databases projected (values and counts); a source with a pending index growth is a recorded known finding (F10)",
         "TLC model checking of Migrate.tla + behaviour replay"),
 "C10": ("MultiTree.tla (roots, node ids standing for claimed addresses, node reference counts, commit overlay, queue, sequential ghost state) model-checked for all histories of InsertTree / ReferenceTree / DereferenceTree over a menu of tree shapes with shared nodes x all log-worker schedules for plain, ref-counted-root and append-only columns (NoCorrupt, IdealVisible, FinalState, necessity config); generated behaviours incl. restarts and transactions that must be rejected (fan-out > 255, invalid mixes) replayed: every visible tree traversed through TreeReader and direct access with the id<->address bijection, entry counts and the ref-count table compared, node sizes 0 bytes .. multi-part, fan-out up to 255; long random histories recorded from the implementation (client calls in model node ids, Process/Defer from hook events, projections of every read, ref-count table and slot census) validated by TLC against TraceMultiTree.tla",
         "TLC model checking of MultiTree.tla + behaviour replay through the multitree API + TLC trace validation"),
 "C11": ("MultiTree.tla with reader locks, the log worker's deferral check and plan as separate steps, used_trees / to_dereference and re-queuing under a fresh id (ReaderStable, NoCorrupt, IdealVisible, XVisible, FinalState; necessity configs without deferral, without used_trees, without the write lock held from check to plan); fine-grained behaviours replayed with reader threads holding the lock across steps and the log worker's call held at BeginRecord through the hook sink, hook events matched against the specification's step; the F18 counterexample schedule forced on the real code; the deferral reorder (F3) is a recorded known finding recognised through the model's conflict sets; random histories with reader threads recorded from the implementation and validated by TLC against TraceMultiTree.tla (every Process/Defer decision of the real log worker must be the one the specification allows), also with the four real worker threads, a writer, a pruner and reader threads running freely (TraceMultiTreeLive.tla)",
         "TLC model checking of MultiTree.tla (fine-grained) + threaded behaviour replay + forced schedule + TLC trace validation"),
 "C06": ("Pdb.tla pipeline model with value ids; the harness maps ids to values of every boundary length of the storage layout (255 tiers x {cap-1, cap, cap+1}, multipart part boundaries, 0..5 bytes, > 1 MiB), compressible or not, for compression none/lz4/snappy and several thresholds; recorded histories sweep every length with overwrites across tiers at every pipeline stage, restarts and crashes; TLC validates every read and the structural dumps (one stored value per live key, no leaked or double-used slot) and steady rounds",
         "TLC trace validation against Pdb.tla with boundary-length concretization + structural dump invariants in TLA+"),
 "C09": ("Index.tla (generations, pages, partial keys, value slots, reindex batches, drops, restarts) model-checked with Findable / OneSlotPerKey and a necessity config re-creating a fixed defect; recorded histories over 80 keys sharing one index chunk (groups agreeing on all index-visible bits) with reindex batches, restarts and crashes validated by TLC against Pdb.tla, plus structural dumps",
         "TLC model checking of Index.tla + TLC trace validation with colliding key universes"),
 "C14": ("structural invariants written in TLA+ (TracePdb.tla DumpOK) and evaluated by TLC on raw structure dumps of the implementation (free list, chains, every value indexed, one value per live key of the model, btree order / depth / reachability) at every drained point of recorded histories incl. recoveries; steady insert/remove rounds must stop growing the fill marks; tree columns: MultiTree.tla with a Crash action, replayed with crash images, ref-count table and slot census compared with the model (known finding F19: claimed slots leak across a crash)",
         "TLA+ structural invariants evaluated by TLC on implementation dumps inside trace validation"),
 "C19": ("PageSearch.tla transcribes the vectorised and the scalar page search at width 8 / block 4; TLC checks the four clauses of C19 for every page over a small entry domain x keys x start positions (2.1 M cases) and a sample of cases with the specification's answers is embedded into real 64-slot pages for six index sizes and replayed through a hook into both private functions",
         "TLC exhaustive check of PageSearch.tla + case replay into the real search functions"),
}
PENDING_REASON = "check under construction in this round (spec module planned in DESIGN.md); not yet claimed"
props = [json.loads(l) for l in open(os.path.join(V, "properties.jsonl"))]
man = {
 "version": 1,
 "setup_cmd": "bin/check --setup",
 "hooks": {
  "guard": "--cfg parity_db_verif",
  "enable": "harness/.cargo/config.toml sets rustflags --cfg parity_db_verif (feature instrumentation via the path dependency on /repo); every check runs `cargo build --offline` in /verif/harness against /repo's working tree",
  "baseline_off_cmd": "cd /repo && cargo test --workspace --no-fail-fast --offline",
  "source_commits": HOOK_COMMITS,
  "add_only": True},
 "engines": [{"name": "tlc+pdbh", "path": "bin/check", "serves_properties": sorted(CLAIMS),
              "kind_free_text": "TLA+ specifications in spec/ checked by TLC; Rust harness harness/ (pdbh) replays TLC-generated behaviours into parity-db and records traces that TLC validates against the specifications"}],
 "checks": [], "not_applicable": [],
 "notes": "See DESIGN.md. Exit 0 held / 1 violation (VIOLATION line) / 2 tool error. known_findings.json lists genuine defects (fixed or recorded).",
}
for p in props:
    pid = p["id"]
    if pid in CLAIMS:
        text, tech = CLAIMS[pid]
        man["checks"].append({
            "property_id": pid,
            "quick_cmd": "bin/check %s --tier quick" % pid,
            "thorough_cmd": "bin/check %s --tier thorough" % pid,
            "evidence_file": "/verif/evidence/%s.json" % pid,
            "replay_cmd_template": "bin/check %s --replay {path}" % pid,
            "engine": "tlc+pdbh",
            "level_claimed": {"category": "model_checking", "text": text, "design_ref": "DESIGN.md section 7 (%s)" % pid},
            "level_note": NOTE,
            "technique": tech})
    else:
        man["not_applicable"].append({"property_id": pid, "reason": PENDING_REASON})
json.dump(man, open(os.path.join(V, "MANIFEST.json"), "w"), indent=1)
print("claimed:", sorted(CLAIMS))
