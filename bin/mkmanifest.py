#!/usr/bin/env python3
"""Regenerates /verif/MANIFEST.json from the table below (single source for the claims)."""
import json, os
V = os.path.dirname(os.path.dirname(os.path.abspath(__file__)))
HOOK_COMMITS = ["b4cd205", "8b1d98b"]
NOTE = ("bounded constants in TLC; conformance of the implementation is sampled (generated behaviours, recorded traces, "
        "crash images at hook events), the stepping API is trusted to drive the stages like the worker loops")
CLAIMS = {
 "C01": ("Pdb.tla model-checked by TLC (every interleaving of commits, pipeline sub-steps and clean restarts for bounded constants, necessity configs for the overlay id tests); TLC-simulated behaviours replayed step by step into the real Db with every read and size compared; recorded random histories (hook + client events) validated against the spec by TLC",
         "TLC model checking of Pdb.tla + behaviour replay + TLC trace validation"),
 "C02": ("Pdb.tla with Crash enabled in every state incl. mid-record, torn append and during recovery (RecoveredIsPrefix); generated behaviours replayed with a crash image taken at every hook event inside every pipeline step, each opened by the real code and compared with the model's prefix states; recorded histories with crashes validated by TLC",
         "TLC model checking of Pdb.tla crash actions + crash-image replay + TLC trace validation"),
 "C03": ("Pdb.tla: CleanCloseKeepsAll/DrainedIsAll and SyncedSurvive over all pipeline states; behaviours ending in close+reopen replayed; sequential and multi-threaded recorded runs (drop right after the last commit) validated by TLC, which requires the queue drained and all records in synced files at close and the full history after reopen; crash images bounded below by the model's durable count",
         "TLC model checking of Pdb.tla + behaviour replay + TLC trace validation (threaded and stepping)"),
 "C07": ("Pdb.tla rc kinds: count>0 => readable, drained => (readable <=> count>0), checked over all histories x schedules x restarts/crashes; behaviours replayed with value iteration compared with the model's counts when drained; recorded traces with Counts events validated by TLC",
         "TLC model checking of Pdb.tla (rc kinds) + behaviour replay + TLC trace validation"),
 "C08": ("Pdb.tla Reject leaves all variables unchanged (invalid op at any position, background-error state); behaviours with rejected calls replayed: reads, value-entry counts and queue/overlay sizes must be unchanged by a rejected call, immediately, after drain and after reopen",
         "TLC model checking of Pdb.tla + behaviour replay + TLC trace validation"),
}
PENDING_REASON = "check under construction in this round (spec module planned in DESIGN.md); not yet claimed"
props = [json.loads(l) for l in open(os.path.join(V, "properties.jsonl"))]
man = {
 "version": 1,
 "setup_cmd": "bin/check --setup",
 "hooks": {
  "guard": "--cfg parity_db_verif",
  "enable": "harness/.cargo/config.toml sets rustflags --cfg parity_db_verif (feature instrumentation via the path dependency on /repo); every check runs `cargo build --offline` in /verif/harness against /repo's working tree",
  "baseline_off_cmd": "cd /repo && cargo test --workspace --no-fail-fast --offline",
  "source_commits": HOOK_COMMITS,
  "add_only": True},
 "engines": [{"name": "tlc+pdbh", "path": "bin/check", "serves_properties": sorted(CLAIMS),
              "kind_free_text": "TLA+ specifications in spec/ checked by TLC; Rust harness harness/ (pdbh) replays TLC-generated behaviours into parity-db and records traces that TLC validates against the specifications"}],
 "checks": [], "not_applicable": [],
 "notes": "See DESIGN.md. Exit 0 held / 1 violation (VIOLATION line) / 2 tool error. known_findings.json lists genuine defects (fixed or recorded).",
}
for p in props:
    pid = p["id"]
    if pid in CLAIMS:
        text, tech = CLAIMS[pid]
        man["checks"].append({
            "property_id": pid,
            "quick_cmd": "bin/check %s --tier quick" % pid,
            "thorough_cmd": "bin/check %s --tier thorough" % pid,
            "evidence_file": "/verif/evidence/%s.json" % pid,
            "replay_cmd_template": "bin/check %s --replay {path}" % pid,
            "engine": "tlc+pdbh",
            "level_claimed": {"category": "model_checking", "text": text, "design_ref": "DESIGN.md section 7 (%s)" % pid},
            "level_note": NOTE,
            "technique": tech})
    else:
        man["not_applicable"].append({"property_id": pid, "reason": PENDING_REASON})
json.dump(man, open(os.path.join(V, "MANIFEST.json"), "w"), indent=1)
print("claimed:", sorted(CLAIMS))
