"""Per-property checks.  Every check: (1) builds the harness against /repo's working tree,
(2) model-checks the property's TLC config(s), (3) generates behaviours from the same
specification and replays them into the real code, (4) validates traces recorded from the
real code against the specification, (5) writes evidence and returns the exit code."""
import json
import os

import vcore
from vcore import Report, ToolError, log, SEED

CHECKS = {}


def check(name):
    def deco(fn):
        CHECKS[name] = fn
        return fn
    return deco


# ---------------------------------------------------------------------------
# Pdb family: configs

def pdb_cfg(kind, nkeys=2, nvals=2, maxcalls=3, maxops=2, maxcrash=0, maxaux=0, fine=True, gen=False,
            feat=(), mut=(), genlen=0, spec="Spec", invariants=("TypeOK", "ReadLatest"), view=None,
            syncwal=True, ncols=None, constraint=None, initrid=1, initcid=0):
    ncols = ncols or {"h": 1, "r": 1, "b": 1}.get(kind, len(kind))
    def sset(xs):
        return "{" + ", ".join('"%s"' % x for x in xs) + "}"
    lines = ["CONSTANTS",
             "  NCols = %d" % ncols,
             "  Kind <- Kind_%s" % kind,
             "  NKeys = %d" % nkeys,
             "  NVals = %d" % nvals,
             "  MaxCalls = %d" % maxcalls,
             "  MaxOps = %d" % maxops,
             "  MaxCrash = %d" % maxcrash,
             "  MaxAux = %d" % maxaux,
             "  Fine = %s" % ("TRUE" if fine else "FALSE"),
             "  Gen = %s" % ("TRUE" if gen else "FALSE"),
             "  Feat = %s" % sset(feat),
             "  SyncWal = %s" % ("TRUE" if syncwal else "FALSE"),
             "  SyncData = TRUE",
             "  InitRid = %d" % initrid,
             "  InitCid = %d" % initcid,
             "  Mut = %s" % sset(mut),
             "  GenLen = %d" % genlen,
             "SPECIFICATION %s" % spec]
    if view:
        lines.append("VIEW %s" % view)
    if constraint:
        lines.append("CONSTRAINT %s" % constraint)
    lines.append("INVARIANTS " + " ".join(invariants))
    lines.append("CHECK_DEADLOCK FALSE")
    return "\n".join(lines) + "\n"


_cfgn = [0]


def write_cfg(text, name=None):
    _cfgn[0] += 1
    path = os.path.join(vcore.scratch(), name or ("cfg%d.cfg" % _cfgn[0]))
    with open(path, "w") as f:
        f.write(text)
    return path


KIND_LETTER = {"hash": "h", "hashp": "p", "rc": "r", "btree": "b", "btree_rc": "c"}


def model_kinds(cols):
    """TLC Kind constant name for a list of harness column specs."""
    letters = []
    for c in cols:
        k = c["kind"]
        if k == "hash" and c.get("preimage"):
            k = "hashp"
        letters.append(KIND_LETTER[k])
    return "".join(letters)


def run_model(rep, cfg_text_or_path, label, module="MCPdb.tla", expect=None, workers=None, timeout=3600,
              heap="12g"):
    """Model-check one config.  expect = None: must pass; expect = invariant name (or True):
    a necessity config that must be violated."""
    path = cfg_text_or_path if os.path.exists(cfg_text_or_path) else write_cfg(cfg_text_or_path)
    res = vcore.tlc_check(module, path, workers=workers, timeout=timeout, heap=heap)
    rep.add_model(res, label)
    if expect is None:
        if not res["ok"]:
            rep.violation("TLC: %s violated in model config %s (design-level counterexample)" % (res["violated"], label),
                          {"kind": "model", "cfg": label, "tlc_tail": res["out"][-6000:]})
        else:
            log("[tlc] %s: %d distinct / %d generated states, depth %d, %.0fs: ok"
                % (label, res["distinct"], res["generated"], res["depth"], res["wall_s"]))
    else:
        if res["ok"]:
            raise ToolError("necessity config %s passed: the guard it drops is not needed by the model, "
                            "so the model cannot justify rejecting traces on it" % label)
        log("[tlc] necessity %s: %s violated after %d states, as required" % (label, res["violated"], res["distinct"]))
    return res


def gen_and_replay(rep, cols, gencfg_kw, num, depth, seed, nkeys, nvals, inner_images=0, small=False, label="",
                   known_damage=False):
    """Generate behaviours with TLC simulation and replay them into the real code."""
    kw = dict(gencfg_kw)
    kw.update(kind=model_kinds(cols), nkeys=nkeys, nvals=nvals, fine=False, gen=True, genlen=depth,
              maxcalls=depth, spec="GenSpec")
    kw["invariants"] = tuple(kw.get("invariants", ("ReadLatest",))) + ("EmitTrace",)
    cfg = write_cfg(pdb_cfg(**kw))
    behs, gen, _ = vcore.tlc_simulate("MCPdb.tla", cfg, num, depth, seed)
    rep.transitions += gen
    inp = os.path.join(vcore.scratch(), "beh_%s.ndjson" % label)
    outp = os.path.join(vcore.scratch(), "res_%s.ndjson" % label)
    vcore.write_ndjson(inp, behs)
    args = {"in": inp, "out": outp, "cols": json.dumps(cols), "nkeys": nkeys, "nvals": nvals, "seed": seed}
    if inner_images:
        args["inner-images"] = inner_images
    if small:
        args["small"] = True
    vcore.pdbh("pdb-replay", args)
    results = vcore.read_ndjson(outp)
    images = 0
    for r in results:
        b = behs[r["i"]]
        rep.behaviours += 1
        rep.evaluations += 1
        images += r.get("images", 0)
        if r["nontrivial"]:
            rep.nontrivial.add(vcore.beh_hash(b))
        for v in r["violations"]:
            if v["what"].startswith("harness:"):
                raise ToolError("replay harness cannot follow the behaviour: %s (behaviour %d of %s)" % (v["what"], r["i"], label))
            ctx = json.dumps(b[: v.get("step", len(b))])
            if known_damage:
                st = b[v.get("step", 1) - 1] if 0 < v.get("step", 0) <= len(b) else {}
                if st.get("a") == "Reopen" and st.get("dmg") in ("headgap", "regress") and "panic" not in v["what"]:
                    k = [k for k in vcore.load_known() if k.get("id") == "F12"]
                    if k:
                        rep.extra["F12_reproduced_on_real_code"] = rep.extra.get("F12_reproduced_on_real_code", 0) + 1
                        if "F12" not in [h[0] for h in rep.known_hits]:
                            rep.known_hits.append(("F12", k[0]["what"] + " [replayed: %s, %s]" % (st.get("dmg"), v["what"][:120])))
                        continue
            rep.violation("%s [cols=%s, step %s %s]" % (v["what"], model_kinds(cols), v.get("step"), v.get("a")),
                          {"kind": "pdb-replay", "cols": cols, "nkeys": nkeys, "nvals": nvals, "seed": seed,
                           "index": r["i"], "inner_images": inner_images, "small": small, "behaviour": b},
                          ctx=ctx)
    rep.extra["crash_images_opened"] = rep.extra.get("crash_images_opened", 0) + images
    for key, pred in (("crash_steps", lambda e: True), ("crash_steps_with_2plus_log_files", lambda e: e.get("nfiles", 0) >= 2),
                      ("crash_steps_with_recycled_file_inversion", lambda e: e.get("inv"))):
        rep.extra[key] = rep.extra.get(key, 0) + sum(1 for b in behs for e in b if e.get("a") == "Crash" and pred(e))
    rep.extra["behaviours_diverged_within_bounds"] = rep.extra.get("behaviours_diverged_within_bounds", 0) + \
        sum(1 for r in results if r.get("diverged"))
    if behs:
        b = behs[0]
        rep.sample({"cols": cols, "behaviour": [dict((k, v) for k, v in e.items() if k not in ("alts",)) for e in b[:12]]})
    log("[replay] %s cols=%s: %d behaviours replayed, %d crash images opened" % (label, model_kinds(cols), len(results), images))
    return behs, results


_dir_cache = {}
_dir_regen = [False]   # thorough tier: always regenerate with TLC


def directed_behaviours(kind="h", feat=("crash", "iofail", "restart"), genlen=20, maxcalls=4, want=None, limit=400,
                        prefer=None):
    """Directed generation: TLC breadth-first search over the stepping-granularity model with the history hidden by the
    view prints one shortest behaviour for every abstract state that has just completed a recovery / restart after
    hitting a coverage tag (Pdb.tla CovOf).  `want(behaviour) -> bool` filters."""
    key = (kind, feat, genlen, maxcalls)
    if key not in _dir_cache:
        import gzip, hashlib
        sha = hashlib.sha1()
        for f in ("Pdb.tla", "MCPdb.tla"):
            sha.update(open(os.path.join(vcore.SPEC, f), "rb").read())
        sha.update(repr(key).encode())
        digest = sha.hexdigest()
        os.makedirs(os.path.join(vcore.SPEC, "directed"), exist_ok=True)
        cache = os.path.join(vcore.SPEC, "directed", "DIR_%s_%s_%d_%d.json.gz" % (kind, "-".join(feat), genlen, maxcalls))
        cached = None
        if os.path.exists(cache) and os.environ.get("VERIF_TIER_FORCE_DIRECTED") != "1":
            try:
                with gzip.open(cache, "rt") as f:
                    c = json.load(f)
                if c.get("sha") == digest:
                    cached = c
            except Exception:
                cached = None
        if cached is not None and not _dir_regen[0]:
            _dir_cache[key] = (cached["behs"], {"cfg": "DIR(cached)", "distinct": cached["distinct"], "generated": cached["generated"],
                                                "depth": cached.get("depth", 0), "wall_s": 0, "cached": True})
        else:
            cfg = pdb_cfg(kind=kind, nkeys=2, nvals=2, maxcalls=maxcalls, maxops=1, maxcrash=1, fine=False, gen=True,
                          genlen=genlen, feat=feat, spec="DirSpec", view="DirView", constraint="DirBound",
                          invariants=("DirEmit",))
            res = vcore.tlc_check("MCPdb.tla", write_cfg(cfg), timeout=1800)
            behs, seen = [], set()
            for line in res["out"].splitlines():
                if line.startswith('"REPLAY '):
                    s = json.loads(line)[7:]
                    if s not in seen:
                        seen.add(s)
                        b = json.loads(s)
                        if len(b) <= genlen:
                            behs.append(b)
            behs.sort(key=len)
            res = dict(res)
            res.pop("out", None)
            _dir_cache[key] = (behs, res)
            try:
                with gzip.open(cache, "wt") as f:
                    json.dump({"sha": digest, "behs": behs, "distinct": res["distinct"], "generated": res["generated"],
                               "depth": res.get("depth", 0)}, f)
            except Exception as e:
                log("[directed] cannot write cache: %s" % e)
    behs, res = _dir_cache[key]
    out = [b for b in behs if want is None or want(b)]
    if prefer is not None:
        out.sort(key=lambda b: (not prefer(b), len(b)))
    return out[:limit], res


def replay_behaviours(rep, behs, cols, nkeys, nvals, seed, label, inner_images=0, small=True):
    """Replay given behaviours (pdb-replay) and register violations."""
    inp = os.path.join(vcore.scratch(), "beh_%s.ndjson" % label)
    outp = os.path.join(vcore.scratch(), "res_%s.ndjson" % label)
    vcore.write_ndjson(inp, behs)
    args = {"in": inp, "out": outp, "cols": json.dumps(cols), "nkeys": nkeys, "nvals": nvals, "seed": seed}
    if inner_images:
        args["inner-images"] = inner_images
    if small:
        args["small"] = True
    vcore.pdbh("pdb-replay", args)
    results = vcore.read_ndjson(outp)
    for r in results:
        b = behs[r["i"]]
        rep.behaviours += 1
        rep.evaluations += 1
        rep.nontrivial.add(vcore.beh_hash(b))
        rep.extra["crash_images_opened"] = rep.extra.get("crash_images_opened", 0) + r.get("images", 0)
        for v in r["violations"]:
            if v["what"].startswith("harness:"):
                raise ToolError("replay harness cannot follow the behaviour: %s (%s)" % (v["what"], label))
            rep.violation("%s [directed, cols=%s, step %s %s]" % (v["what"], model_kinds(cols), v.get("step"), v.get("a")),
                          {"kind": "pdb-replay", "cols": cols, "nkeys": nkeys, "nvals": nvals, "seed": seed,
                           "index": r["i"], "inner_images": inner_images, "small": small, "behaviour": b},
                          ctx=json.dumps(b[: v.get("step", len(b))]))
    log("[directed] %s cols=%s: %d behaviours replayed" % (label, model_kinds(cols), len(results)))
    return results


def has_step(b, pred):
    return any(pred(e) for e in b)


def replay(prop, path):
    """Re-run a stored violating case."""
    with open(path) as f:
        obj = json.load(f)
    rep = Report(prop, "quick")
    rep.known = []
    if obj.get("kind") == "pdb-replay":
        inp = os.path.join(vcore.scratch(), "one.ndjson")
        outp = os.path.join(vcore.scratch(), "one.res")
        vcore.write_ndjson(inp, [obj["behaviour"]])
        # the behaviour index enters the seed of the universe
        args = {"in": inp, "out": outp, "cols": json.dumps(obj["cols"]), "nkeys": obj["nkeys"], "nvals": obj["nvals"],
                "seed": obj["seed"] + obj.get("index", 0)}
        if obj.get("inner_images"):
            args["inner-images"] = obj["inner_images"]
        if obj.get("small"):
            args["small"] = True
        vcore.pdbh("pdb-replay", args)
        for r in vcore.read_ndjson(outp):
            for v in r["violations"]:
                log("VIOLATION property=%s replay=%s" % (prop, path))
                log("  " + v["what"])
                return 1
        log("replay: no violation reproduced")
        return 0
    if obj.get("kind") == "pdb-trace":
        cfg = write_cfg(trace_cfg(obj["cols"], obj["nkeys"], obj["nvals"], initrid=obj.get("initrid", 1),
                                  initcid=obj.get("initcid", 0)))
        res = vcore.tlc_trace("MCTracePdb.tla", cfg, obj["trace"])
        log(res["out"][-1500:])
        if not res["accepted"]:
            log("VIOLATION property=%s replay=%s" % (prop, path))
            return 1
        log("replay: trace accepted")
        return 0
    if obj.get("kind") == "pdb-record":
        r = record_and_validate(rep, obj["cols"], obj["nkeys"], obj["nvals"], obj["steps"], obj["seed"],
                                crash=obj.get("crash", 0), label="replay", small=obj.get("small", False))
        return rep.finish()
    if obj.get("kind") == "model":
        log(obj.get("tlc_tail", ""))
        log("VIOLATION property=%s replay=%s" % (prop, path))
        return 1
    if obj.get("cmd") and "behaviour" in obj:
        # a behaviour replayed by one of the harness commands (mtree-replay, admin-replay, lock-replay, migrate-replay,
        # btree-replay, pagesearch-replay ...): run it again on its own
        inp = os.path.join(vcore.scratch(), "one.ndjson")
        outp = os.path.join(vcore.scratch(), "one.res")
        vcore.write_ndjson(inp, [obj["behaviour"]])
        args = {"in": inp, "out": outp}
        args.update(obj.get("args") or {})
        vcore.pdbh(obj["cmd"], args)
        for r in vcore.read_ndjson(outp):
            for v in r["violations"]:
                log("VIOLATION property=%s replay=%s" % (prop, path))
                log("  " + v["what"][:1500])
                return 1
        log("replay: no violation reproduced")
        return 0
    # recorded runs of free-running threads, scenarios: the stored file describes the case; the check is run again
    log("replay of a %s case: %s" % (obj.get("kind"), json.dumps({k: v for k, v in obj.items() if k not in ("trace", "behaviour", "events")})[:1500]))
    return CHECKS[prop]("quick")


# ---------------------------------------------------------------------------
# C01

C01_COLS = [
    [{"kind": "hash"}, {"kind": "hash", "uniform": True, "grow": True}],
    [{"kind": "hash", "comp": "lz4", "threshold": 0}, {"kind": "hash", "comp": "snappy", "threshold": 100}],
    [{"kind": "hash", "uniform": True, "preimage": True, "grow": True}, {"kind": "hash", "comp": "lz4"}],
]


@check("C01")
def c01(tier):
    rep = Report("C01", tier)
    rep.rule = ("TLC enumerates every interleaving of commits, pipeline sub-steps and clean restarts for the bounded "
                "constants; behaviours are generated by TLC simulation of the same spec at stepping granularity and replayed "
                "into the real Db (get + get_size of every key after every step); a behaviour is non-trivial when at some "
                "step at least two pipeline stages (queued / logged / flushed-not-enacted) are non-empty or a restart "
                "happens with a non-empty pipeline; distinct by hash of the action sequence")
    rep.assumptions = ["stepping API (instrumentation feature) drives each stage exactly like the worker loops",
                       "keys/values concretized from a seeded table fixed before the run"]
    vcore.build_harness()
    thorough = tier == "thorough"
    kw = dict(kind="hh", nkeys=1, nvals=2, maxcalls=3 if thorough else 2, maxops=2, maxaux=1,
              feat=("restart", "aux"), view="ViewLogical",
              invariants=("TypeOK", "ReadLatest", "LayerHandOver", "DrainedIsAll"))
    run_model(rep, pdb_cfg(**kw), "MC_C01(%d calls)" % kw["maxcalls"])
    # necessity of the two id tests (what makes removing them a violation of C01)
    for mut in (["covl_no_cid", "lovl_no_rid"] if thorough else ["covl_no_cid"]):
        k2 = dict(kw, maxcalls=2, mut=(mut,))
        run_model(rep, pdb_cfg(**k2), "MC_C01_noguard_" + mut, expect=True)
    num = 400 if thorough else 60
    for i, cols in enumerate(C01_COLS):
        gen_and_replay(rep, cols, dict(feat=("restart", "reject"), maxops=3), num, 30, SEED + i * 101, 2, 2,
                       label="c01_%d" % i)
    # implementation -> spec: seeded random histories, every hook event and read validated by TLC
    ntr = 6 if thorough else 2
    first = None
    for j in range(ntr):
        cols = C01_COLS[j % len(C01_COLS)]
        r = record_and_validate(rep, cols, 12, 5, 900 if thorough else 350, SEED * 1000 + j, label="c01t%d" % j)
        first = first or r
    # index growth in the middle of the history, also nested (two generations queued): colliding keys
    for j in range(3 if thorough else 1):
        record_and_validate(rep, [{"kind": "hash", "uniform": True, "collide": True, "deep": True}], 80, 3,
                            2000 if thorough else 700, SEED * 1009 + j, label="c01deep%d" % j, small=True)
    # the binding is sensitive: tampered copies of the first recorded trace must be rejected
    binding_selftest(rep, os.path.join(vcore.scratch(), "trace_c01t0.ndjson"), C01_COLS[0], 12, 5,
                     initrid=first["init_rid"], initcid=first["init_cid"])
    return rep.finish()


# ---------------------------------------------------------------------------
# implementation -> specification: recorded traces validated by TLC (TracePdb.tla)

def trace_cfg(cols, nkeys, nvals, invariants=("TypeOK", "ReadLatest", "LayerHandOver"), initrid=1, initcid=0):
    return pdb_cfg(kind=model_kinds(cols), nkeys=nkeys, nvals=nvals, maxcalls=1000000, maxops=4, maxcrash=1000000,
                   initrid=initrid, initcid=initcid,
                   maxaux=1000000, fine=True, gen=False, feat=("crash", "restart", "reject", "aux"), spec="TraceSpec",
                   view="TraceView", invariants=invariants).replace("  GenLen = 0\n", "") \
        .replace("CHECK_DEADLOCK FALSE", "POSTCONDITION TraceAccepted\nCHECK_DEADLOCK FALSE")


def validate_trace(rep, trace_path, cols, nkeys, nvals, label, meta, initrid=1, initcid=0):
    """TLC decides whether the recorded trace is a behaviour of the specification."""
    cfg = write_cfg(trace_cfg(cols, nkeys, nvals, initrid=initrid, initcid=initcid))
    res = vcore.tlc_trace("MCTracePdb.tla", cfg, trace_path)
    rep.traces += 1
    rep.evaluations += 1
    rep.transitions += res.get("generated", 0)
    n_events = res.get("total", 0)
    rep.extra["trace_events_validated"] = rep.extra.get("trace_events_validated", 0) + max(res.get("matched", 0), 0)
    if not res["accepted"]:
        first = ""
        for line in res["out"].splitlines():
            if "TRACE-FIRST-UNMATCHED" in line or "is violated" in line:
                first += line.strip() + " "
        # keep the trace itself as the replay artefact
        os.makedirs(vcore.REPLAYS, exist_ok=True)
        keep = os.path.join(vcore.REPLAYS, "%s_trace_%s.ndjson" % (rep.prop, label))
        import shutil
        shutil.copyfile(trace_path, keep)
        ctx = ""
        if res.get("matched", -1) >= 0:
            with open(trace_path) as f:
                lines = f.readlines()
            ctx = "".join(lines[max(0, res["matched"] - 30): res["matched"] + 1])
        rep.violation("recorded trace rejected by the specification after %s of %s events: %s [cols=%s]"
                      % (res.get("matched"), n_events, first[:400], model_kinds(cols)),
                      {"kind": "pdb-trace", "trace": keep, "cols": cols, "nkeys": nkeys, "nvals": nvals, "meta": meta,
                       "initrid": initrid, "initcid": initcid},
                      ctx=ctx)
    return res



def binding_selftest(rep, trace_path, cols, nkeys, nvals, initrid=1, initcid=0):
    """The binding must be sensitive: a recorded trace with one hook event removed, one read result changed or one
    client call removed must be REJECTED by TLC.  An accepted tampered trace is a tool error (the trace
    specification constrains too little)."""
    events = vcore.read_ndjson(trace_path)
    n = len(events)
    out = {}

    def run(name, mutated):
        path = os.path.join(vcore.scratch(), "tampered_%s.ndjson" % name)
        vcore.write_ndjson(path, mutated)
        cfg = write_cfg(trace_cfg(cols, nkeys, nvals, initrid=initrid, initcid=initcid))
        res = vcore.tlc_trace("MCTracePdb.tla", cfg, path)
        rep.transitions += res.get("generated", 0)
        if res["accepted"]:
            raise ToolError("trace validation ACCEPTED a tampered trace (%s): the binding is not sensitive" % name)
        out[name] = "rejected after %s of %s events" % (res.get("matched"), res.get("total"))

    # 0. control: the untouched trace, written through the same path, is accepted
    ctl = os.path.join(vcore.scratch(), "tampered_control.ndjson")
    vcore.write_ndjson(ctl, events)
    res = vcore.tlc_trace("MCTracePdb.tla", write_cfg(trace_cfg(cols, nkeys, nvals, initrid=initrid, initcid=initcid)), ctl)
    if not res["accepted"]:
        raise ToolError("binding self-test: the untouched control trace was rejected (after %s events)" % res.get("matched"))
    # 1. a hook event removed (the overlay clean-up of some commit in the middle of the run)
    idx = [i for i, e in enumerate(events) if e.get("e") == "CleanCovl" and i > n // 3]
    if idx:
        run("hook_removed", events[:idx[0]] + events[idx[0] + 1:])
    # 2. one read result changed
    for i in range(n // 2, n):
        e = events[i]
        if e.get("e") == "Obs" and any(v > 0 for col in e["obs"] for v in col):
            m = json.loads(json.dumps(e))
            for col in m["obs"]:
                for j, v in enumerate(col):
                    if v > 0:
                        col[j] = v % nvals + 1 if nvals > 1 else 0
                        break
                else:
                    continue
                break
            run("read_changed", events[:i] + [m] + events[i + 1:])
            break
    # 3. a client call removed (a commit whose effect is visible in the next observation)
    for i in range(n // 4, n - 1):
        e = events[i]
        if e.get("e") == "Commit" and i > 0 and events[i - 1].get("e") == "Obs" and events[i + 1].get("e") == "Obs" \
                and events[i - 1]["obs"] != events[i + 1]["obs"]:
            run("call_removed", events[:i] + events[i + 1:])
            break
    if len(out) < 2:
        raise ToolError("binding self-test could not build its tampered traces")
    rep.extra["binding_selftest"] = out
    log("[selftest] tampered traces: %s" % out)


def trace_event_counts(rep, path):
    """what the recorded traces actually contained (summed over the traces of a run), for the evidence file"""
    cnt = rep.extra.setdefault("trace_event_counts", {})
    for e in vcore.read_ndjson(path):
        k = e.get("e")
        if k == "Sys":
            k = "Sys:" + str(e.get("call"))
        elif k == "Dump":
            k = "Dump:" + str(e.get("kind"))
            if e.get("kind") == "hash" and len(e.get("gens", [])) > 1:
                cnt["Dump:hash:several_index_generations"] = cnt.get("Dump:hash:several_index_generations", 0) + 1
        cnt[k] = cnt.get(k, 0) + 1


def record_and_validate(rep, cols, nkeys, nvals, steps, seed, crash=0, label="", small=False, cursor=0, dumps=False,
                        boundary=False, steady=0, growth_crash=False, powerloss=0):
    out = os.path.join(vcore.scratch(), "trace_%s.ndjson" % label)
    args = {"out": out, "cols": json.dumps(cols), "nkeys": nkeys, "nvals": nvals, "steps": steps, "seed": seed}
    if cursor:
        args["cursor"] = cursor
    if dumps:
        args["dumps"] = True
    if boundary:
        args["boundary"] = True
    if steady:
        args["steady"] = steady
    if crash:
        args["crash"] = crash
    if small:
        args["small"] = True
    if powerloss:
        # crash images cut down to what a power loss may leave (harness/src/common.rs DurableState): every table /
        # index file either current or as at its last msync, every log file cut between synced and current length
        args["powerloss"] = powerloss
    if growth_crash:
        # scripted prefix: growth, removal of a key still indexed by the old generation, reindex to its end,
        # crash image right after the old index file was unlinked (see harness/src/record.rs)
        args["growth_crash"] = True
    p = vcore.pdbh("pdb-record", args)
    summary = json.loads(p.stdout.strip().splitlines()[-1])
    meta = {"cmd": "pdb-record", "args": args}
    for pr in summary.get("problems", []):
        rep.violation("driver: %s [cols=%s seed=%d]" % (pr, model_kinds(cols), seed),
                      {"kind": "pdb-record", "cols": cols, "nkeys": nkeys, "nvals": nvals, "steps": steps, "seed": seed,
                       "crash": crash, "small": small})
    res = validate_trace(rep, out, cols, nkeys, nvals, label, meta, initrid=summary.get("init_rid", 1),
                         initcid=summary.get("init_cid", 0))
    trace_event_counts(rep, out)
    res["init_rid"], res["init_cid"] = summary.get("init_rid", 1), summary.get("init_cid", 0)
    for k in ("powerloss_images", "powerloss_images_with_data_dropped", "aligned_collider_ops"):
        if summary.get(k):
            rep.extra[k] = rep.extra.get(k, 0) + summary[k]
    rep.nontrivial.add("trace:%s:%d" % (label, seed))
    if len(rep.samples) < 4:
        with open(out) as f:
            head = [json.loads(x) for x in f.readlines()[:400]]
        sample = [e for e in head if e.get("e") not in ("TabWrite", "Obs")][:14]
        rep.sample({"trace_cols": cols, "events": summary.get("events"), "crashes": summary.get("crashes"),
                    "first_events": sample})
    log("[trace] %s cols=%s: %d events (%s crashes, %s restarts), matched %s/%s"
        % (label, model_kinds(cols), summary.get("events", 0), summary.get("crashes"), summary.get("restarts"),
           res.get("matched"), res.get("total")))
    return res


def record_mt_and_validate(rep, cols, nkeys, commits, seed, label="", readers=3, committers=2, reads=600, spin=False):
    out = os.path.join(vcore.scratch(), "tracemt_%s.ndjson" % label)
    args = {"out": out, "cols": json.dumps(cols), "nkeys": nkeys, "commits": commits, "seed": seed,
            "readers": readers, "committers": committers, "reads": reads}
    if spin:
        args["spin"] = True
    p = vcore.pdbh("pdb-record-mt", args)
    summary = json.loads(p.stdout.strip().splitlines()[-1])
    for pr in summary.get("problems", []):
        rep.violation("driver: %s [cols=%s seed=%d]" % (pr, model_kinds(cols), seed),
                      {"kind": "pdb-record-mt", "cols": cols, "nkeys": nkeys, "commits": commits, "seed": seed})
    res = validate_trace(rep, out, cols, nkeys, 1, label, {"cmd": "pdb-record-mt", "args": args})
    trace_event_counts(rep, out)
    rep.nontrivial.add("tracemt:%s:%d" % (label, seed))
    log("[trace-mt] %s cols=%s: %d events, matched %s/%s" % (label, model_kinds(cols), summary.get("events", 0),
                                                              res.get("matched"), res.get("total")))
    return res


# ---------------------------------------------------------------------------
# C02 / C03: crash recovery, clean shutdown

CRASH_INV = ("TypeOK", "LogicalOK", "ReadLatest", "RecoveredIsPrefix", "SyncedSurvive", "DrainedIsAll")
CRASH_COLS = [
    [{"kind": "hash"}, {"kind": "rc"}],
    [{"kind": "hash", "uniform": True}, {"kind": "btree"}],
    [{"kind": "rc", "comp": "lz4", "threshold": 0}, {"kind": "hash", "comp": "snappy"}],
    [{"kind": "btree"}, {"kind": "btree_rc"}],
]


def crash_models(rep, thorough, prefix):
    kw = dict(kind="hr", nkeys=1, nvals=1, maxcalls=2, maxops=2, maxcrash=2, fine=True,
              feat=("crash", "crashrec", "restart"), view="ViewNoTrace", invariants=CRASH_INV)
    run_model(rep, pdb_cfg(**kw), prefix + "(hr,2 calls,2 crashes)")
    # a log truncated before it is fully enacted loses a commit in the middle of the history
    k2 = dict(kw, maxcrash=1, mut=("truncate_any",))
    run_model(rep, pdb_cfg(**k2), prefix + "_noguard_truncate_any", expect=True)
    # log files must be replayed in the order of their first record id, not of their file number
    # (truncated files are reused lowest number first)
    k3 = dict(kw, kind="h", nkeys=2, maxcalls=3, maxops=1, maxcrash=1, fine=False, feat=("crash",), mut=("open_by_file_id",))
    run_model(rep, pdb_cfg(**k3), prefix + "_noguard_open_by_file_id", expect=True)
    if thorough:
        kw2 = dict(kw, kind="h", nkeys=2)
        run_model(rep, pdb_cfg(**kw2), prefix + "(h,2 keys,2 calls,2 crashes)", timeout=3000)


@check("C02")
def c02(tier):
    _dir_regen[0] = (tier == "thorough")
    rep = Report("C02", tier)
    rep.rule = ("TLC: crash enabled in every state (mid-record apply, torn append, during recovery), <=2 crashes; "
                "behaviours with crashes generated by TLC and replayed: a copy of the database directory is taken at the "
                "crash step AND at every hook event inside every pipeline step (file-operation boundaries and table "
                "stores), each image is opened with the real code and must equal the state after a prefix of the committed "
                "transactions (all columns at once) not shorter than the synced prefix; recorded random histories with "
                "crashes inside pipeline bursts are validated by TLC; non-trivial = crash/restart with a non-empty "
                "pipeline or two stages occupied")
    rep.assumptions = ["a process crash preserves every completed write(2) and every MAP_SHARED store (page cache)",
                       "crash instants are the hook events and step boundaries, not arbitrary machine instructions"]
    vcore.build_harness()
    thorough = tier == "thorough"
    crash_models(rep, thorough, "MC_C02")
    num = 150 if thorough else 24
    for i, cols in enumerate(CRASH_COLS):
        gen_and_replay(rep, cols, dict(feat=("crash", "restart", "reject"), maxops=3, maxcrash=3,
                                       invariants=("ReadLatest", "RecoveredIsPrefix", "SyncedSurvive")),
                       num, 34, SEED + 7 + i * 13, 2, 2, inner_images=40, small=(i % 2 == 1), label="c02_%d" % i)
    if rep.extra.get("crash_steps_with_recycled_file_inversion", 0) == 0:
        raise ToolError("no crash with a recycled log file generated: coverage too thin")
    # directed: shortest behaviours that crash with a recycled log file / with three log files
    dbehs, dres = directed_behaviours(want=lambda b: has_step(b, lambda e: e.get("a") == "Crash" and (e.get("inv") or e.get("nfiles", 0) >= 3)),
                                      prefer=lambda b: has_step(b, lambda e: e.get("a") == "Crash" and e.get("inv")),
                                      limit=300 if thorough else 60)
    rep.add_model(dres, "DIR_Pdb(directed generation)")
    rep.extra["directed_behaviours"] = len(dbehs)
    for j, cols in enumerate(([{"kind": "hash"}], [{"kind": "btree"}]) if thorough else ([{"kind": "hash"}],)):
        replay_behaviours(rep, dbehs, cols, 2, 2, SEED + 900 + j, "c02dir%d" % j, inner_images=30)
    ntr = 8 if thorough else 2
    for j in range(ntr):
        cols = CRASH_COLS[j % len(CRASH_COLS)]
        record_and_validate(rep, cols, 10, 4, 700 if thorough else 300, SEED * 977 + j, crash=5, label="c02t%d" % j,
                            small=(j % 2 == 0))
    # crash at the instants of an index growth (scripted prefix: image right after the old index file is gone,
    # then random crashes aimed at unlink / truncate instants)
    for j in range(3 if thorough else 1):
        record_and_validate(rep, [{"kind": "hash", "uniform": True, "collide": True, "deep": j % 2 == 1}], 80, 3,
                            500 if thorough else 250, SEED * 983 + j, crash=5, label="c02gc%d" % j, small=True,
                            growth_crash=True)
    return rep.finish()


@check("C03")
def c03(tier):
    _dir_regen[0] = (tier == "thorough")
    rep = Report("C03", tier)
    rep.rule = ("TLC: clean close enabled in every reachable pipeline state, crash after every sync; behaviours ending in "
                "close+reopen from every kind of pipeline state replayed (stepping mode) and threaded runs dropped "
                "immediately after the last commit; the trace spec requires at close that the queue is drained and every "
                "record sits in a synced file, and after reopen every read shows the full history; crash images must contain "
                "every commit whose log file had been fdatasync'ed (lower bound from the model's `durable`)")
    rep.assumptions = ["sync_wal = sync_data = true", "fdatasync makes the log file durable"]
    vcore.build_harness()
    thorough = tier == "thorough"
    crash_models(rep, thorough, "MC_C03")
    num = 200 if thorough else 16
    for i, cols in enumerate(CRASH_COLS):
        gen_and_replay(rep, cols, dict(feat=("restart", "crash"), maxops=3, maxcrash=2,
                                       invariants=("ReadLatest", "RecoveredIsPrefix", "SyncedSurvive", "DrainedIsAll")),
                       num, 30, SEED + 31 + i * 17, 2, 2, inner_images=0, small=True, label="c03_%d" % i)
    # directed: clean close with >= 4 log files pending / with a recycled file, crash with 3 files
    # ... and crash with >= 2 applied records still in their log files plus a synced, unapplied one (recovery replays
    # records that the tables are already ahead of, then must still apply the synced one)
    replayed_ahead = lambda b: has_step(b, lambda e: e.get("a") == "Crash" and e.get("napp", 0) >= 2 and e.get("nsyn", 0) >= 1)
    dbehs, dres = directed_behaviours(want=lambda b: has_step(b, lambda e: e.get("a") == "CloseOpen") or replayed_ahead(b) or
                                      has_step(b, lambda e: e.get("a") == "Crash" and e.get("nfiles", 0) >= 3),
                                      prefer=replayed_ahead, limit=300 if thorough else 80)
    rep.extra["directed_crash_with_applied_records_in_files_and_a_synced_one"] = sum(1 for b in dbehs if replayed_ahead(b))
    if rep.extra["directed_crash_with_applied_records_in_files_and_a_synced_one"] == 0:
        raise ToolError("directed generation: no crash with two applied records still in their files and a synced one: vacuous")
    rep.add_model(dres, "DIR_Pdb(directed generation)")
    rep.extra["directed_behaviours"] = len(dbehs)
    replay_behaviours(rep, dbehs, [{"kind": "hash", "uniform": True}], 2, 2, SEED + 910, "c03dir")
    ntr = 6 if thorough else 2
    for j in range(ntr):
        record_and_validate(rep, CRASH_COLS[j % 2], 10, 4, 500 if thorough else 250, SEED * 613 + j, crash=3,
                            label="c03t%d" % j, small=True)
    nmt = 8 if thorough else 2
    for j in range(nmt):
        record_mt_and_validate(rep, [{"kind": "hash"}, {"kind": "hash", "uniform": True}], 8,
                               150 if thorough else 60, SEED * 211 + j, label="c03mt%d" % j)
    # tree columns (MultiTree.tla): clean close with commits still queued, among them dereferences that the drain inside
    # drop() has to defer (tree marked as used by an insertion queued behind it); the drain steps of the model are
    # compared with what the log-worker code did inside drop() (hook events) and the reopened database with the
    # model's drained state
    ncl, ncd = 0, 0
    for j, var in enumerate(["", "rc"] + (["direct", "big"] if thorough else [])):
        vs = var.split(",")
        behs = mt_generate(rep, 120 if thorough else 30, 34, SEED * 31 + j, rc="rc" in vs, fine=False, shapes="ShapesWide",
                           maxids=14, maxcommits=10, maxlocks=5, maxdefers=4, nt=3, nv=2)
        # (behaviours in which a deferred commit overtakes a commit writing the same key are C11's known finding F3)
        keep = [b for b in behs if any(e.get("a") == "Close" for e in b["steps"]) and not any(o.get("conflict") for o in b["obs"])]
        for b in keep:
            closing = False
            for e in b["steps"]:
                if e.get("a") == "Close":
                    closing, ncl = True, ncl + 1
                elif e.get("a") == "Reopen":
                    closing = False
                elif closing and e.get("a") == "Defer":
                    ncd += 1
        generic_replay(rep, "mtree-replay", keep, {"seed": SEED + 90 + j, "variant": var}, "c03m_%d" % j, "mtree-replay")
    # the close whose drain must defer needs six specific steps in a row: enumerated by TLC from a script
    for j, (sc, var) in enumerate([("ScriptCloseDefer", ""), ("ScriptCloseDefer2", ""), ("ScriptCloseDefer", "rc")]
                                  + ([("ScriptCloseDefer2", "direct,big")] if thorough else [])):
        behs = mt_scripted(rep, sc, limit=60 if thorough else 20, rc="rc" in var.split(","), fine=False, shapes="ShapesSmall",
                           maxids=8, maxcommits=6, maxlocks=2, maxdefers=3, nt=3, nv=1)
        keep = [b for b in behs if not any(o.get("conflict") for o in b["obs"])]
        ncl += len(keep)
        ncd += sum(1 for b in keep for e in b["steps"] if e.get("a") == "Defer")
        generic_replay(rep, "mtree-replay", keep, {"seed": SEED + 95 + j, "variant": var}, "c03s_%d" % j, "mtree-replay")
    rep.extra["tree_closes_with_queued_commits"] = ncl
    rep.extra["deferrals_inside_drop"] = ncd
    if ncl < 5 or ncd < 1:
        raise ToolError("tree behaviours: %d clean closes with queued commits, %d deferrals inside drop(): vacuous" % (ncl, ncd))
    return rep.finish()


# ---------------------------------------------------------------------------
# C07: reference counting

RC_COLS = [
    [{"kind": "rc"}, {"kind": "rc", "uniform": True}],
    [{"kind": "rc", "comp": "lz4", "threshold": 0}, {"kind": "hash"}],
    [{"kind": "btree_rc"}, {"kind": "rc"}],
]


@check("C07")
def c07(tier):
    rep = Report("C07", tier)
    rep.rule = ("TLC: all histories of set/reference/dereference over rc columns x stage schedules x restarts/crashes; "
                "invariant: count>0 => readable with its value, and once everything is logged readable <=> count>0; "
                "behaviours replayed with value=f(key); when the pipeline is drained value iteration must report exactly "
                "the model's counts; recorded traces validated by TLC (Obs and Counts events)")
    rep.assumptions = ["values of rc columns are a function of the key (preimage)"]
    vcore.build_harness()
    thorough = tier == "thorough"
    kw = dict(kind="rr", nkeys=1, nvals=1, maxcalls=2, maxops=2, maxcrash=1, fine=True,
              feat=("crash", "restart"), view="ViewNoTrace", invariants=CRASH_INV + ("LayerHandOver",))
    run_model(rep, pdb_cfg(**kw), "MC_C07(rr,2 calls)", timeout=3000)
    if thorough:
        # (3 calls of 2 operations on two rc columns did not finish within 50 minutes: one more call with single
        # operations on two columns, and 3 calls of 2 operations on one column)
        run_model(rep, pdb_cfg(**dict(kw, maxcalls=3, maxops=1)), "MC_C07(rr,3 calls of 1 op)", timeout=3000)
        run_model(rep, pdb_cfg(**dict(kw, kind="r", maxcalls=3, maxops=2)), "MC_C07(r,3 calls of 2 ops)", timeout=3000)
    kw1 = dict(kind="r", nkeys=2, nvals=1, maxcalls=3, maxops=2 if thorough else 1, fine=True, feat=("restart",),
               view="ViewLogical", invariants=("TypeOK", "ReadLatest", "DrainedIsAll"))
    run_model(rep, pdb_cfg(**kw1), "MC_C07(r,2 keys,3 calls)", timeout=3000)
    num = 300 if thorough else 50
    for i, cols in enumerate(RC_COLS):
        gen_and_replay(rep, cols, dict(feat=("restart", "reject", "crash"), maxops=4, maxcrash=2,
                                       invariants=("ReadLatest", "RecoveredIsPrefix")),
                       num, 32, SEED + 3 + i * 29, 2, 2, small=(i == 0), label="c07_%d" % i)
    ntr = 6 if thorough else 2
    for j in range(ntr):
        record_and_validate(rep, RC_COLS[j % len(RC_COLS)], 8, 3, 800 if thorough else 300, SEED * 389 + j,
                            crash=2, label="c07t%d" % j, small=(j % 2 == 1))
    # counts change while the index of the counting column grows: 80 keys share 18 hash bits (uniform keys, identity
    # hash), the growth 16 -> 17 -> 18 -> 19 bits leaves two older generations pending at once, and sets / references /
    # dereferences reach keys that live only in the SECOND pending generation while the first is being migrated
    two = 0
    for j in range(2 if thorough else 1):
        record_and_validate(rep, [{"kind": "rc", "uniform": True, "collide": True, "deep": True}], 80, 3,
                            2200 if thorough else 1100, SEED * 397 + j, crash=2, label="c07g%d" % j, small=True, dumps=True)
        gens = set()
        for e in vcore.read_ndjson(os.path.join(vcore.scratch(), "trace_c07g%d.ndjson" % j)):
            if e.get("e") == "Dump" and e.get("kind") == "hash":
                gens.add(tuple(e.get("gens", [])))
        # (dumps are taken in drained states only: an index of 18 or more bits in this universe was reached through a
        # growth that started while the previous one was still being migrated)
        two += 1 if any(g and max(g) >= 18 for g in gens) else 0
        rep.extra.setdefault("c07_index_generations_seen", []).append(sorted(gens))
    if two == 0:
        raise ToolError("C07 growth traces never grew the index twice: vacuous")
    # the storage side of counting (Slots.tla, RC): a key is stored exactly while its count is positive, at the address the
    # specification predicts; raising / lowering a count allocates nothing
    slots_rc_part(rep, thorough, "c07")
    return rep.finish()


# ---------------------------------------------------------------------------
# C08: rejected transactions

C08_COLS = [
    [{"kind": "hash"}, {"kind": "rc"}],
    [{"kind": "btree"}, {"kind": "hash", "uniform": True}],
    [{"kind": "hash", "uniform": True, "preimage": True}, {"kind": "btree_rc"}],
]


@check("C08")
def c08(tier):
    rep = Report("C08", tier)
    rep.rule = ("TLC: Reject (invalid operation at any position among valid ones, or any commit in the background-error "
                "state) leaves every variable unchanged, followed by any commits/stages/restarts with ReadLatest checked; "
                "behaviours with rejected calls replayed: after a rejected call every read, the number of value entries of "
                "every hash column and the sizes of queue/overlay must equal those before it, immediately, after draining "
                "and after reopen; non-trivial = a rejected call with a non-empty pipeline")
    rep.assumptions = ["invalid operations modelled: Reference on a column without counting; any commit after a background error",
                       "tree columns: rejections enumerated in MCMultiTree.tla (RejectWide / RejectOther)"]
    vcore.build_harness()
    thorough = tier == "thorough"
    kw = dict(kind="hr", nkeys=1, nvals=1, maxcalls=3, maxops=2, maxcrash=0, fine=True,
              feat=("reject", "restart", "iofail"), view="ViewLogical", invariants=("TypeOK", "ReadLatest", "DrainedIsAll"))
    run_model(rep, pdb_cfg(**kw), "MC_C08(hr,3 calls)", timeout=3000)
    num = 300 if thorough else 50
    for i, cols in enumerate(C08_COLS):
        behs, results = gen_and_replay(rep, cols, dict(feat=("restart", "reject"), maxops=3), num, 30,
                                       SEED + 11 + i * 37, 2, 2, small=(i != 1), label="c08_%d" % i)
        nrej = sum(1 for b in behs for e in b if e.get("a") == "Commit" and not e.get("ok"))
        rep.extra["rejected_calls_replayed"] = rep.extra.get("rejected_calls_replayed", 0) + nrej
        if nrej == 0:
            raise ToolError("no rejected call generated: vacuous")
    # background-error state: store_err, then every commit must be refused and leave no trace
    for i, cols in enumerate(C08_COLS[:2]):
        gen_and_replay(rep, cols, dict(feat=("restart", "reject", "iofail", "crash"), maxops=2, maxcrash=2,
                                       invariants=("ReadLatest", "RecoveredIsPrefix")),
                       num // 2, 26, SEED + 501 + i, 2, 2, small=True, label="c08e_%d" % i)
    ntr = 4 if thorough else 1
    for j in range(ntr):
        record_and_validate(rep, C08_COLS[j % len(C08_COLS)], 8, 3, 500 if thorough else 300, SEED * 151 + j,
                            label="c08t%d" % j, small=True)
    # tree columns (MultiTree.tla): transactions rejected after a valid InsertTree has claimed its nodes,
    # fan-out that cannot be stored, dereference of a missing tree, plain operation on the tree column
    for j, var in enumerate(["", "rc,pads"] + (["direct,big", "ao"] if thorough else [])):
        vs = var.split(",")
        behs = mt_generate(rep, 60 if thorough else 10, 30, SEED * 29 + j, rc="rc" in vs, ao="ao" in vs, fine=False,
                           shapes="ShapesWide", maxids=14, maxcommits=10, maxlocks=0, nt=3, nv=2, rejw=35)
        nrej = sum(1 for b in behs for e in b["steps"] if e.get("a") == "Reject")
        rep.extra["rejected_tree_transactions_replayed"] = rep.extra.get("rejected_tree_transactions_replayed", 0) + nrej
        generic_replay(rep, "mtree-replay", behs, {"seed": SEED + 80 + j, "variant": var}, "c08m_%d" % j, "mtree-replay")
    return rep.finish()


# ---------------------------------------------------------------------------
# C05: concurrent readers

@check("C05")
def c05(tier):
    rep = Report("C05", tier)
    rep.rule = ("TLC: a reader whose lookup is three separate steps (commit overlay under the read lock, log overlay, tables) "
                "interleaved with committers and every worker sub-step; invariants ReadInterval (returned value was latest "
                "at some moment of the read) and LayerHandOver; necessity configs swap the hand-over order. Implementation "
                "-> spec: runs with the four real workers, 2 committers and 3 readers (unique value per Set) are recorded; "
                "TLC validates every hook event against the fine-grained actions (so a swapped hand-over is rejected on "
                "every run) and every read with interval semantics; a run is non-trivial when reads overlap commits "
                "(always the case: counted per run)")
    rep.assumptions = ["events are ordered by a counter taken under the recorder mutex inside the critical sections",
                       "thread schedules are sampled; the exhaustive part is the model"]
    vcore.build_harness()
    thorough = tier == "thorough"
    inv = ("TypeOK", "ReadLatest", "LayerHandOver", "ReadInterval")
    kw = dict(kind="h", nkeys=2, nvals=1, maxcalls=2, maxops=2, fine=True, feat=("reader",), view="ViewLogical",
              invariants=inv)
    run_model(rep, pdb_cfg(**kw), "MC_C05(h,2 keys,2 calls,reader)", timeout=3000)
    if thorough:
        kw3 = dict(kw, nvals=2, maxcalls=3, maxops=1)
        run_model(rep, pdb_cfg(**kw3), "MC_C05(h,2 keys,3 calls,reader)", timeout=3400)
    for mut in ("clean_covl_first", "endread_first"):
        run_model(rep, pdb_cfg(**dict(kw, mut=(mut,))), "MC_C05_noguard_" + mut, expect=True)
    colsets = [
        [{"kind": "hash"}, {"kind": "hash", "uniform": True}],
        [{"kind": "hash", "comp": "lz4", "threshold": 0}, {"kind": "btree"}],
        [{"kind": "hash"}, {"kind": "rc"}],
    ]
    nruns = 12 if thorough else 3
    for j in range(nruns):
        record_mt_and_validate(rep, colsets[j % len(colsets)], 6, 120 if thorough else 60, SEED * 97 + j,
                               label="c05mt%d" % j, reads=1500 if thorough else 500)
    # reads racing an index growth: 80 keys of one index chunk, the log worker migrates the old generation while the
    # readers hammer keys that are still indexed by it (the hook sink holds the worker between the collection of a
    # reindex batch and the publication of its record)
    inwin = 0
    for j in range(4 if thorough else 2):
        label = "c05gr%d" % j
        record_mt_and_validate(rep, [{"kind": "hash", "uniform": True, "collide": True}, {"kind": "hash"}], 80, 150,
                               SEED * 89 + j, label=label, reads=3000)
        open_win = False
        for e in vcore.read_ndjson(os.path.join(vcore.scratch(), "tracemt_%s.ndjson" % label)):
            if e.get("e") == "ReindexRecord":
                open_win = True
            elif e.get("e") == "EndRecord":
                open_win = False
            elif e.get("e") == "GetRet" and open_win:
                inwin += 1
    # btree columns: a lookup is a chain of dependent reads (header, root, inner nodes, leaf, value) that has to see ONE
    # state of the log overlay; 40 keys (several nodes, splits and merges, nodes changing their size tier and address),
    # readers that never pause, so that a record is published in the middle of a lookup at almost every commit
    for j in range(6 if thorough else 2):
        record_mt_and_validate(rep, [{"kind": "btree_rc" if j % 3 == 2 else "btree", "noempty": True}], 40, 300, SEED * 907 + j,
                               label="c05bt%d" % j, reads=8000, spin=True)
    rep.extra["reads_completed_while_a_reindex_batch_was_being_planned"] = inwin
    if inwin < 100:
        raise ToolError("threaded growth runs: only %d reads fell into a reindex window: vacuous" % inwin)
    return rep.finish()


# ---------------------------------------------------------------------------
# C12: power loss

POWER_INV = ("TypeOK", "ReadLatest", "RecoveredIsPrefix", "SyncedSurvive")


@check("C12")
def c12(tier):
    rep = Report("C12", tier)
    rep.rule = ("TLC: PowerLoss in every state (any prefix of the unsynced log tail incl. a torn record, any subset of "
                "unflushed table locations), recovery must yield a prefix containing every synced commit; necessity "
                "configs: enacting from an unsynced file, truncating before the table flush. Implementation -> spec: "
                "fdatasync/fsync/msync/ftruncate/unlink are interposed in the harness binary and joined with the hook "
                "events; TLC checks on every recorded run (stepping and threaded) that no record is applied before an "
                "fdatasync of its log file covered it and that no log is truncated/deleted before every table written "
                "for its records was msync'ed afterwards")
    rep.assumptions = ["directory operations and file lengths are durable and ordered",
                       "msync/fdatasync make the affected file durable",
                       "power-loss states are enumerated in the model; on the implementation the ordering rules are "
                       "checked on observed file operations (no physical power cut)"]
    vcore.build_harness()
    thorough = tier == "thorough"
    kw = dict(kind="h", nkeys=2, nvals=1, maxcalls=2, maxops=1 if not thorough else 2, maxcrash=1, fine=True,
              feat=("power",), view="ViewNoTrace", invariants=POWER_INV)
    run_model(rep, pdb_cfg(**kw), "MC_C12(h,2 keys,2 calls,power loss)", timeout=3400)
    for mut in ("enact_unsynced", "trunc_unflushed"):
        run_model(rep, pdb_cfg(**dict(kw, maxops=1, mut=(mut,))), "MC_C12_noguard_" + mut, expect=True)
    # power loss during the recovery that follows a process crash (the log may hold records that were written
    # but never synced): replay syncs each file first (repair 7156d81, F21); necessity config without it
    kw2 = dict(kw, kind="hr", nkeys=1, maxops=2, maxcrash=2, feat=("power", "crashrec"))
    run_model(rep, pdb_cfg(**kw2), "MC_C12(hr,power loss x2 incl. during recovery)", timeout=3400)
    run_model(rep, pdb_cfg(**dict(kw2, mut=("replay_unsynced",))), "MC_C12_noguard_replay_unsynced", expect=True)
    # ... and on the implementation: process crash with an unsynced record in the log file, recovery, power loss
    # right after the record was enacted (the recovery's own syncs are observed), second recovery
    p = vcore.pdbh("powerloss-in-recovery", {})
    line = [l for l in p.stdout.splitlines() if l.startswith("{")]
    if not line:
        raise ToolError("powerloss-in-recovery printed no result")
    r = json.loads(line[-1])
    if not r.get("image_taken"):
        raise ToolError("powerloss-in-recovery: no image was taken during the recovery (hook missing?)")
    rep.behaviours += 1
    rep.evaluations += 1
    rep.nontrivial.add("powerloss-in-recovery")
    for v in r["violations"]:
        rep.violation("scenario power loss during recovery: %s" % v, {"kind": "powerloss-in-recovery"})
    log("[scenario] power loss during recovery: %d violations" % len(r["violations"]))
    colsets = [
        [{"kind": "hash"}, {"kind": "rc"}],
        [{"kind": "btree"}, {"kind": "hash", "uniform": True}],
        [{"kind": "hash", "comp": "lz4", "threshold": 0}, {"kind": "btree_rc"}],
    ]
    ntr = 8 if thorough else 3
    for j in range(ntr):
        record_and_validate(rep, colsets[j % 3], 10, 4, 800 if thorough else 300, SEED * 733 + j, crash=3,
                            label="c12t%d" % j, small=(j % 2 == 0))
    # power-loss IMAGES: the crash image is cut down to what stable storage may hold (unsynced log tail gone or torn,
    # table / index files as at their last msync in any combination); the recovered state must still be a prefix
    # that contains every synced record
    npl = 10 if thorough else 4
    plsets = colsets + [[{"kind": "hash", "uniform": True, "collide": True}]]
    for j in range(npl):
        cs = plsets[j % len(plsets)]
        big = cs[0].get("collide")
        record_and_validate(rep, cs, 80 if big else 10, 3 if big else 4, 900 if thorough else 400, SEED * 739 + j, crash=5,
                            powerloss=70, label="c12pl%d" % j, small=True, growth_crash=bool(big))
    # value tables that GROW during the run (chained values of 33..100 KB: the table of parts passes several 256 KiB
    # extensions): what an msync covers is taken from its address range, so data beyond a stale mapping length counts as
    # not durable
    for j in range(2 if thorough else 1):
        record_and_validate(rep, [{"kind": "hash", "multi": True}], 6, 6, 500 if thorough else 320, SEED * 743 + j, crash=5,
                            powerloss=70, label="c12plg%d" % j)
    if rep.extra.get("powerloss_images_with_data_dropped", 0) < 3:
        raise ToolError("power-loss images dropped no unsynced data (%s): vacuous" % rep.extra.get("powerloss_images_with_data_dropped"))
    nmt = 8 if thorough else 2
    for j in range(nmt):
        record_mt_and_validate(rep, colsets[j % 3], 6, 150 if thorough else 60, SEED * 53 + j, label="c12mt%d" % j,
                               reads=100)
    if rep.extra.get("trace_events_validated", 0) == 0:
        raise ToolError("no events validated")
    return rep.finish()


# ---------------------------------------------------------------------------
# C13: damaged logs

@check("C13")
def c13(tier):
    rep = Report("C13", tier)
    rep.rule = ("TLC: after a crash the log files are damaged in every abstract way (truncation at or inside any record, an "
                "invalid record anywhere, a missing file; <=2 damages), recovery must expose a prefix not older than what "
                "the tables held; behaviours with damage steps are generated by TLC and concretized on the real log files "
                "(record boundaries from the EndRecord hook: truncation at a random byte inside the record, a random bit "
                "flipped inside the record, file removed), the real open must not panic and must yield exactly the model's "
                "prefix; non-trivial = damage applied to an image holding >= 1 unapplied record. Two damage classes the "
                "design cannot handle (DamageClass headgap / regress in Pdb.tla) are excluded from the general pool and "
                "exercised in a dedicated pool as known findings")
    rep.assumptions = ["the tables of the damaged image hold a clean prefix (damage is to the logs, records applied atomically "
                       "at stepping granularity)", "CRC32 detects the injected single-bit flips"]
    vcore.build_harness()
    thorough = tier == "thorough"
    inv = ("TypeOK", "RecoveredIsPrefix", "NotOlderThanTables", "ReadLatest")
    kw = dict(kind="h", nkeys=2, nvals=1, maxcalls=3, maxops=1, maxcrash=1, maxaux=2, fine=False,
              feat=("crash", "corrupt", "safe_damage"), view="ViewNoTrace", invariants=inv)
    run_model(rep, pdb_cfg(**kw), "MC_C13(h,2 keys,3 calls,2 damages)", timeout=3400)
    # crashes alone never produce the two damage classes
    run_model(rep, pdb_cfg(**dict(kw, feat=("crash", "crashrec"), fine=True, maxcalls=2, maxops=2, maxcrash=2,
                                  invariants=("TypeOK", "NoNaturalDamage"))), "MC_C13_NoNaturalDamage")
    if thorough:
        run_model(rep, pdb_cfg(**dict(kw, kind="hr", nkeys=1, maxcalls=4, maxcrash=2)),
                  "MC_C13(hr,4 calls,2 crashes,2 damages)", timeout=3400)
    # the known findings at design level: without the exclusion TLC must find them
    known = {k["id"]: k for k in vcore.load_known() if k.get("property") == "C13"}
    res = vcore.tlc_check("MCPdb.tla", write_cfg(pdb_cfg(**dict(kw, feat=("crash", "corrupt")))), timeout=1800)
    rep.add_model(res, "MC_C13_all_damage")
    if res["ok"]:
        log("[tlc] MC_C13_all_damage passes: the known damage classes no longer violate the model")
    elif "F12" in known:
        rep.known_hits.append(("F12", known["F12"]["what"] + " [model: %s]" % res["violated"]))
    else:
        rep.violation("TLC: %s violated with unrestricted damage" % res["violated"],
                      {"kind": "model", "cfg": "MC_C13_all_damage", "tlc_tail": res["out"][-6000:]})
    colsets = [
        [{"kind": "hash"}, {"kind": "rc"}],
        [{"kind": "btree"}, {"kind": "hash", "uniform": True}],
    ]
    num = 400 if thorough else 80
    ncorrupt = 0
    for i, cols in enumerate(colsets):
        behs, results = gen_and_replay(rep, cols, dict(feat=("crash", "corrupt", "restart", "safe_damage"), maxops=3,
                                                       maxcrash=4, maxaux=6,
                                                       invariants=("RecoveredIsPrefix", "NotOlderThanTables")),
                                       num, 36, SEED + 77 + i * 19, 2, 2, small=(i == 0), label="c13_%d" % i)
        ncorrupt += sum(1 for b in behs for e in b if e.get("a", "").startswith("Corrupt"))
    rep.extra["damage_steps_replayed"] = ncorrupt
    if ncorrupt == 0:
        raise ToolError("no damage step generated: vacuous")
    # dedicated pool: unrestricted damage; a violation at a Reopen whose damage class (computed by the model) is
    # headgap/regress is the known finding, anything else is reported
    gen_and_replay(rep, colsets[0], dict(feat=("crash", "corrupt"), maxops=2, maxcrash=4, maxaux=6, invariants=("TypeOK",)),
                   num, 30, SEED + 5, 2, 2, small=True, label="c13_known", known_damage=True)
    # "files from an earlier generation" as the code itself may leave them: a clean-up interrupted between two
    # truncations (crash images aimed at the truncate / unlink instants); recorded histories validated by TLC, whose
    # specification truncates the oldest applied file first
    for j in range(4 if thorough else 2):
        record_and_validate(rep, colsets[j % 2], 6, 3, 700 if thorough else 350, SEED * 457 + j, crash=5, label="c13t%d" % j,
                            small=True)
    return rep.finish()


# ---------------------------------------------------------------------------
# C16: I/O errors

@check("C16")
def c16(tier):
    _dir_regen[0] = (tier == "thorough")
    rep = Report("C16", tier)
    rep.rule = ("TLC: an I/O failure can stop any pipeline step part-way (append with or without a torn record, enact after "
                "any subset of the record's writes, sync/truncate), the handle enters the error state: reads keep "
                "returning the latest committed values, commits are refused, drop + reopen yields a prefix containing "
                "everything synced before; behaviours replayed with real injected failures (the n-th file operation of the "
                "step fails, n random) and syscall-level errno injection in threaded runs; non-trivial = failure with a "
                "non-empty pipeline")
    rep.assumptions = ["failures are injected at the try_io! sites (instrumentation feature) and at the interposed libc "
                       "calls; the failing step's error is handed to store_err as a worker would do"]
    vcore.build_harness()
    thorough = tier == "thorough"
    inv = ("TypeOK", "ReadLatest", "RecoveredIsPrefix", "SyncedSurvive")
    kw = dict(kind="h", nkeys=2, nvals=1, maxcalls=3, maxops=1, maxcrash=1, fine=False,
              feat=("iofail", "crash", "reject"), view="ViewNoTrace", invariants=inv)
    run_model(rep, pdb_cfg(**kw), "MC_C16(h,2 keys,3 calls)", timeout=3400)
    if thorough:
        run_model(rep, pdb_cfg(**dict(kw, kind="hr", nkeys=1, maxops=2)), "MC_C16(hr,3 calls,2 ops)", timeout=3400)
    colsets = [
        [{"kind": "hash"}, {"kind": "rc"}],
        [{"kind": "btree"}, {"kind": "hash", "uniform": True}],
        [{"kind": "hash", "comp": "lz4", "threshold": 0}, {"kind": "btree_rc"}],
    ]
    num = 400 if thorough else 70
    nfail = 0
    for i, cols in enumerate(colsets):
        behs, results = gen_and_replay(rep, cols, dict(feat=("iofail", "crash", "reject", "restart"), maxops=3, maxcrash=3,
                                                       invariants=("ReadLatest", "RecoveredIsPrefix", "SyncedSurvive")),
                                       num, 30, SEED + 177 + i * 23, 2, 2, small=(i != 1), label="c16_%d" % i)
        nfail += sum(1 for b in behs for e in b if e.get("a", "").startswith("IoFail"))
    rep.extra["failure_steps_replayed"] = nfail
    if nfail == 0:
        raise ToolError("no failure step generated: vacuous")
    # directed: a failing step while >= 2 logs (possibly a recycled, lower-numbered one holding newer records)
    # await cleanup; the injection point is chosen systematically per behaviour
    dbehs, dres = directed_behaviours(want=lambda b: has_step(b, lambda e: e.get("a") == "IoFailOther" and e.get("ncq", 0) >= 2),
                                      prefer=lambda b: has_step(b, lambda e: e.get("a") == "IoFailOther" and e.get("ncq", 0) >= 2 and e.get("inv")),
                                      limit=400 if thorough else 120)
    rep.add_model(dres, "DIR_Pdb(directed generation)")
    rep.extra["directed_behaviours"] = len(dbehs)
    rep.extra["directed_with_recycled_cleanup_queue"] = sum(1 for b in dbehs if has_step(b, lambda e: e.get("a") == "IoFailOther" and e.get("ncq", 0) >= 2 and e.get("inv")))
    for j in range(3 if thorough else 2):
        replay_behaviours(rep, dbehs, [{"kind": "hash"}], 2, 2, SEED + 920 + j, "c16dir%d" % j)
    return rep.finish()


# ---------------------------------------------------------------------------
# BTreeNode.tla: the on-disk B-tree (C04: order and depth; C14: no unreachable node), transcribed

BT_TAGS = ["split_leaf_less", "split_leaf_equal", "split_leaf_greater", "split_leaf_greater_last",
           "split_inner_less", "split_inner_equal", "split_inner_greater", "split_inner_greater_last"] + \
          ["split_inner_child_%d" % i for i in range(9)] + \
          ["borrow_left_leaf", "borrow_right_leaf", "borrow_left_inner", "borrow_right_inner", "borrow_right_inner_from_full",
           "merge_leaf", "merge_leaf_last", "merge_inner", "merge_inner_last", "remove_last_rebalance",
           "replace_by_predecessor_depth1", "replace_by_predecessor_depth2", "root_split", "root_collapse", "replace_value"]


def _replay_lines(out):
    behs = []
    for line in out.splitlines():
        if line.startswith('"REPLAY '):
            try:
                behs.append(json.loads(json.loads(line)[7:]))
            except ValueError:
                pass
    return behs


def btree_node_part(rep, thorough, label, light=False):
    """Design check of BTreeNode.tla (small ORDER, exhaustive), then behaviours for ORDER = 8 replayed with the SHAPE of
    the stored tree compared with the specification's after every operation."""
    cfgs = ["MC_BTreeNode_o2.cfg"] + ([] if light else ["MC_BTreeNode_o4.cfg"]) + (["MC_BTreeNode_o4_18.cfg"] if thorough else [])
    for cfg in cfgs:
        res = vcore.tlc_check("BTreeNode.tla", os.path.join(vcore.SPEC, cfg), timeout=3000)
        rep.add_model(res, cfg[:-4])
        if not res["ok"]:
            rep.violation("TLC: %s violated in BTreeNode.tla (%s)" % (res["violated"], cfg),
                          {"kind": "model", "cfg": cfg, "tlc_tail": res["out"][-5000:]})
        else:
            log("[tlc] %s: %d distinct trees: ok" % (cfg[:-4], res["distinct"]))
    # necessity: deliberately wrong variants of two steps (children of a split-off inner node one slot too far; a full
    # inner node that lends its first child loses its last) must be rejected by the invariants
    for cfg in ["MC_BTreeNode_o2_mut_split.cfg", "MC_BTreeNode_o2_mut_lend.cfg"] + (["MC_BTreeNode_o4_mut_split.cfg"] if thorough else []):
        r = vcore.tlc_check("BTreeNode.tla", os.path.join(vcore.SPEC, cfg), timeout=3000)
        rep.add_model(r, cfg[:-4])
        if r["ok"]:
            raise ToolError("BTreeNode.tla: the wrong variant %s passes the invariants: vacuous" % cfg)
        log("[tlc] necessity %s: %s violated after %d trees, as required" % (cfg[:-4], r["violated"], r["distinct"]))
    # canonical trees x every single operation (breadth first, one behaviour per successor)
    res = vcore.tlc_check("BTreeNode.tla", os.path.join(vcore.SPEC, "ASC_BTreeNode.cfg"), workers=1, timeout=2400)
    rep.add_model(res, "ASC_BTreeNode")
    canon = _replay_lines(res["out"])
    if not res["ok"] or len(canon) < 5000:
        raise ToolError("BTreeNode.tla: enumeration of the canonical trees failed (%d behaviours)" % len(canon))
    # random histories (insertions, then removals) of 300 operations
    rnd, gen, _ = vcore.tlc_simulate("BTreeNode.tla", os.path.join(vcore.SPEC, "GEN_BTreeNode.cfg"),
                                     160 if thorough else 40, 300, SEED + 17)
    rep.transitions += gen
    # ... and histories in which a third of the commits hold 2..6 operations on (mostly neighbouring) keys
    rndb, gen, _ = vcore.tlc_simulate("BTreeNode.tla", os.path.join(vcore.SPEC, "GEN_BTreeNode_batch.cfg"), 80 if thorough else 16, 220,
                                      SEED + 19)
    rep.transitions += gen
    rep.extra["btree_commits_with_several_operations"] = sum(1 for b in rndb for st in b["steps"] if st["a"] == "batch")
    if rep.extra["btree_commits_with_several_operations"] < 100:
        raise ToolError("BTreeNode batch behaviours hold fewer than 100 commits with several operations: vacuous")
    rnd = rnd + rndb
    if not thorough:
        # every transition kept with up to 10 behaviours spread over the enumeration, plus every 25th behaviour
        keep = set(range(0, len(canon), 25))
        for t in BT_TAGS:
            idx = [i for i, b in enumerate(canon) if t in b["tags"]]
            keep.update(idx[::max(1, len(idx) // 10)][:10])
        canon = [canon[i] for i in sorted(keep)]
    covered = set()
    for b in canon + rnd:
        covered.update(b["tags"])
    missing = [t for t in BT_TAGS if t not in covered]
    rep.extra["btree_transitions_covered"] = sorted(covered)
    rep.extra["btree_behaviours"] = {"canonical": len(canon), "random": len(rnd)}
    if missing:
        raise ToolError("BTreeNode behaviours do not take the transitions %s: vacuous" % missing)
    # the binding is sensitive: a behaviour whose expected shape was tampered with must be reported
    t = json.loads(json.dumps(rnd[0]))
    for st in t["steps"][len(t["steps"]) // 2:]:
        if st["shape"]["s"]:
            st["shape"]["s"][0] += 1000
    inp, outp = os.path.join(vcore.scratch(), "bt_tamper.ndjson"), os.path.join(vcore.scratch(), "bt_tamper.out")
    vcore.write_ndjson(inp, [t])
    vcore.pdbh("btree-replay", {"in": inp, "out": outp})
    if not any(r["violations"] for r in vcore.read_ndjson(outp)):
        raise ToolError("btree-replay ACCEPTED a behaviour with a changed expected shape: the binding is not sensitive")
    for j, var in enumerate(["", "lz4", "rc"] if thorough else ([""] if light else ["", "rc"])):
        part = (canon + rnd) if (thorough or j == 0) else (canon[::6] + rnd[::4])
        generic_replay(rep, "btree-replay", part, {"variant": var}, "%s_bt%d" % (label, j), "btree-replay")



# ---------------------------------------------------------------------------
# Slots.tla: value-table slot allocation (C06: storage released and reused; C14: every slot live once or free once),
# transcribed; the replay compares ADDRESSES

SL_TAGS = ["pop", "extend", "insert", "replace", "move", "remove", "grow_chain", "trim_chain", "same_chain", "crash", "crash_replays",
           "crash_loses_unsynced"]


def slots_part(rep, thorough, label, rc=True):
    """Design check of Slots.tla (exhaustive, small constants, necessity configs), then behaviours with the part counts
    of real values replayed with fill marks, free-list order and the slots of every chain compared."""
    res = vcore.tlc_check("Slots.tla", os.path.join(vcore.SPEC, "MC_Slots.cfg"), timeout=3000)
    rep.add_model(res, "MC_Slots")
    if not res["ok"]:
        rep.violation("TLC: %s violated in Slots.tla" % res["violated"], {"kind": "model", "cfg": "MC_Slots.cfg", "tlc_tail": res["out"][-5000:]})
    else:
        log("[tlc] MC_Slots: %d distinct states: ok" % res["distinct"])
    for cfg in ["MC_Slots_mut_pop.cfg", "MC_Slots_mut_trim.cfg"]:
        r = vcore.tlc_check("Slots.tla", os.path.join(vcore.SPEC, cfg), timeout=1200)
        rep.add_model(r, cfg[:-4])
        if r["ok"]:
            raise ToolError("Slots.tla: the wrong variant %s passes the invariants: vacuous" % cfg)
        log("[tlc] necessity %s: %s violated after %d states, as required" % (cfg[:-4], r["violated"], r["distinct"]))
    behs, gen, _ = vcore.tlc_simulate("Slots.tla", os.path.join(vcore.SPEC, "GEN_Slots.cfg"), 160 if thorough else 22, 121, SEED + 23)
    rep.transitions += gen
    covered = set()
    for b in behs:
        covered.update(b["tags"])
    missing = [t for t in SL_TAGS if t not in covered]
    rep.extra["slot_transitions_covered"] = sorted(covered)
    if missing:
        raise ToolError("Slots behaviours do not take the transitions %s: vacuous" % missing)
    # the binding is sensitive: a behaviour with a changed expected address must be reported
    t = json.loads(json.dumps(behs[0]))
    for st in t["steps"][len(t["steps"]) // 3:]:
        st["x"]["mem"][-1][0] += 1
    inp, outp = os.path.join(vcore.scratch(), "sl_tamper.ndjson"), os.path.join(vcore.scratch(), "sl_tamper.out")
    vcore.write_ndjson(inp, [t])
    vcore.pdbh("slots-replay", {"in": inp, "out": outp})
    if not any(r["violations"] for r in vcore.read_ndjson(outp)):
        raise ToolError("slots-replay ACCEPTED a behaviour with a changed expected fill mark: the binding is not sensitive")
    full = heads = nbad = 0
    for j, var in enumerate(["", "lz4"] + (["snappy"] if thorough else [])):
        results = generic_replay(rep, "slots-replay", behs if (thorough or j == 0) else behs[::2], {"variant": var}, "%s_sl%d" % (label, j), "slots-replay")
        full += sum(r.get("full_compares", 0) for r in results)
        nbad += sum(1 for r in results if r["violations"])
        if var:
            heads += sum(r.get("compressed_heads", 0) for r in results)
    rep.extra["slot_address_comparisons"] = full
    rep.extra["compressed_chain_heads_seen"] = heads
    # (a replay stops at its first disagreement: the coverage guard is meaningful only when every behaviour ran to its end,
    # and it must not turn reported violations into a tool error)
    if nbad == 0 and (full < 100 or heads < 20):
        raise ToolError("slots-replay compared %d complete layouts and met %d compressed chains: vacuous" % (full, heads))
    if rc:
        slots_rc_part(rep, thorough, label)


def slots_rc_part(rep, thorough, label):
    """Slots.tla for a counting column (RC): a Set of a present key and a Dereference above one only log the entry again,
    the storage goes when the count reaches zero; addresses compared as in slots_part."""
    res = vcore.tlc_check("Slots.tla", os.path.join(vcore.SPEC, "MC_Slots_rc.cfg"), timeout=3000)
    rep.add_model(res, "MC_Slots_rc")
    if not res["ok"]:
        rep.violation("TLC: %s violated in Slots.tla (counting column)" % res["violated"],
                      {"kind": "model", "cfg": "MC_Slots_rc.cfg", "tlc_tail": res["out"][-5000:]})
    else:
        log("[tlc] MC_Slots_rc: %d distinct states: ok" % res["distinct"])
    behs, gen, _ = vcore.tlc_simulate("Slots.tla", os.path.join(vcore.SPEC, "GEN_Slots_rc.cfg"), 80 if thorough else 12, 121, SEED + 29)
    rep.transitions += gen
    covered = set()
    for b in behs:
        covered.update(b["tags"])
    missing = [t for t in ("inc_ref", "dec_ref", "remove", "pop", "extend", "crash_replays", "crash_loses_unsynced") if t not in covered]
    if missing:
        raise ToolError("Slots behaviours of the counting column do not take the transitions %s: vacuous" % missing)
    results = generic_replay(rep, "slots-replay", behs, {"variant": "rc"}, "%s_slrc" % label, "slots-replay")
    rep.extra["slot_address_comparisons_counting_column"] = sum(r.get("full_compares", 0) for r in results)

# ---------------------------------------------------------------------------
# C04: btree columns

C04_COLS = [
    [{"kind": "btree", "noempty": True}],
    [{"kind": "btree", "noempty": True, "comp": "lz4", "threshold": 0}],
    [{"kind": "btree_rc", "noempty": True}],
]


@check("C04")
def c04(tier):
    rep = Report("C04", tier)
    rep.rule = ("TLC: the abstract ordered-map cursor (Start/End/At/Seeked) over the pipeline model: every cursor call sequence "
                "interleaved with commits and stage steps for the bounded constants; behaviours (seek/first/last/next/prev "
                "with direction changes, commits and pipeline steps between cursor calls, data spread over commit overlay, "
                "log overlay and tree) are generated by TLC and replayed through a real BTreeIterator, each returned "
                "(key, value) compared; non-trivial = behaviour with a cursor open while >= 2 pipeline stages are occupied")
    rep.assumptions = ["keys are ranks of a sorted seeded universe without the empty key (seek_to_first = rank 0)"]
    vcore.build_harness()
    thorough = tier == "thorough"
    kw = dict(kind="b", nkeys=3, nvals=1, maxcalls=2, maxops=2, fine=False, feat=("cursor", "restart"), view="ViewLogical",
              invariants=("TypeOK", "ReadLatest", "DrainedIsAll"))
    run_model(rep, pdb_cfg(**kw), "MC_C04(b,3 keys,2 calls,cursor)", timeout=3400)
    num = 1500 if thorough else 150
    ncur = 0
    # (quick runs fewer behaviours per column kind, not fewer kinds)
    num = 1500 if thorough else 100
    for i, cols in enumerate(C04_COLS):
        behs, results = gen_and_replay(rep, cols, dict(feat=("cursor", "restart"), maxops=3), num, 44, SEED + 41 + i * 7,
                                       5, 2, small=(i % 2 == 0), label="c04_%d" % i)
        ncur += sum(1 for b in behs for e in b if e.get("a") in ("CurNext", "CurPrev"))
    rep.extra["cursor_steps_replayed"] = ncur
    if ncur == 0:
        raise ToolError("no cursor step generated: vacuous")
    # implementation -> spec: long seeded histories over a larger universe (tree of depth >= 2, insert / replace /
    # remove bursts), iterator kept open across commits and pipeline steps, every result validated by TLC
    ntr = 6 if thorough else 3
    for j in range(ntr):
        cols = [dict(C04_COLS[j % len(C04_COLS)][0])]
        record_and_validate(rep, cols, 120 if thorough else 60, 3, 2500 if thorough else 900, SEED * 271 + j,
                            crash=1, label="c04t%d" % j, small=True, cursor=45)
    # the on-disk tree itself (BTreeNode.tla): keys in order, every leaf at the recorded depth, after any sequence of
    # insertions and removals - the stored shape must be the specification's after every operation
    btree_node_part(rep, thorough, "c04")
    return rep.finish()


# ---------------------------------------------------------------------------
# C18: single live handle

def generic_replay(rep, cmd, behs, extra_args, label, kind):
    inp = os.path.join(vcore.scratch(), "beh_%s.ndjson" % label)
    outp = os.path.join(vcore.scratch(), "res_%s.ndjson" % label)
    vcore.write_ndjson(inp, behs)
    args = {"in": inp, "out": outp}
    args.update(extra_args)
    vcore.pdbh(cmd, args)
    results = vcore.read_ndjson(outp)
    for r in results:
        b = behs[r["i"]]
        rep.behaviours += 1
        rep.evaluations += 1
        if r.get("nontrivial"):
            rep.nontrivial.add(vcore.beh_hash(b))
        for v in r["violations"]:
            if v["what"].startswith("harness:"):
                raise ToolError("replay harness cannot follow the behaviour: %s" % v["what"])
            rep.violation("%s [step %s %s]" % (v["what"], v.get("step"), v.get("a")),
                          {"kind": kind, "cmd": cmd, "args": extra_args, "behaviour": b},
                          ctx=json.dumps((b["steps"] if isinstance(b, dict) else b)[: v.get("step", len(b))]))
    if behs:
        rep.sample({"behaviour": (behs[0]["steps"] if isinstance(behs[0], dict) else behs[0])[:14]})
    log("[replay] %s: %d behaviours replayed" % (label, len(results)))
    return results


@check("C18")
def c18(tier):
    rep = Report("C18", tier)
    rep.rule = ("TLC: 3 actors (two handles of one process, one child process) x open (lock, then recovery) / commit / "
                "drop / die, all interleavings; behaviours generated by TLC and replayed with real handles and real child "
                "processes (killed with SIGKILL for Die): an open while a handle lives must fail with Error::Locked and "
                "leave every file byte-identical, after drop or death the next open must succeed and see what was "
                "committed through cleanly dropped handles; a client may keep a tree reader obtained from its handle beyond "
                "the handle's life (Keep / Release): the lock goes with the handle, not with what the client still holds; "
                "plus racing opens from 4 threads (exactly one may win); "
                "non-trivial = an open attempted while another handle is alive")
    rep.assumptions = ["flock semantics of the local file system (per open file description)"]
    vcore.build_harness()
    thorough = tier == "thorough"
    res = vcore.tlc_check("Lock.tla", os.path.join(vcore.SPEC, "MC_Lock.cfg"), timeout=1200)
    rep.add_model(res, "MC_Lock")
    if not res["ok"]:
        rep.violation("TLC: %s violated in Lock.tla" % res["violated"], {"kind": "model", "cfg": "MC_Lock", "tlc_tail": res["out"][-5000:]})
    else:
        log("[tlc] MC_Lock: %d distinct states: ok" % res["distinct"])
    behs, gen, _ = vcore.tlc_simulate("Lock.tla", os.path.join(vcore.SPEC, "GEN_Lock.cfg"), 400 if thorough else 60, 16, SEED)
    rep.transitions += gen
    # an open that must succeed although the client still keeps a tree reader of a handle it has dropped
    def open_past_kept(b):
        kept, dropped = set(), set()
        for e in b:
            if e["a"] == "Keep":
                kept.add(e["actor"])
            elif e["a"] == "Release":
                kept.discard(e["actor"])
                dropped.discard(e["actor"])
            elif e["a"] == "Drop" and e["actor"] in kept:
                dropped.add(e["actor"])
            elif e["a"] == "Open" and e.get("ok") and dropped:
                return True
        return False
    rep.extra["opens_after_drop_with_reader_kept"] = sum(1 for b in behs if open_past_kept(b))
    if rep.extra["opens_after_drop_with_reader_kept"] < 3:
        raise ToolError("Lock behaviours hold fewer than 3 opens after the drop of a handle whose tree reader is still kept: vacuous")
    generic_replay(rep, "lock-replay", behs, {"children": "3"}, "c18", "lock-replay")
    p = vcore.pdbh("lock-race", {"rounds": 200 if thorough else 40})
    summary = json.loads(p.stdout.strip().splitlines()[-1])
    rep.evaluations += summary["rounds"]
    rep.extra["racing_open_rounds"] = summary["rounds"]
    if summary["bad"]:
        rep.violation("racing opens: %d of %d rounds did not have exactly one successful open" % (summary["bad"], summary["rounds"]),
                      {"kind": "lock-race", "rounds": summary["rounds"]})
    return rep.finish()


# ---------------------------------------------------------------------------
# C17: administration

@check("C17")
def c17(tier):
    rep = Report("C17", tier)
    rep.rule = ("TLC enumerates EVERY valid column option record (flags x compression) as a round-trip behaviour: create a "
                "database with it, reopen with the same record (must succeed), then with each single field changed (must "
                "fail and leave all files byte-identical); plus random administration histories (create with 1..3 columns of "
                "mixed kinds, commits, crash images with pending logs, add_column, drop_last_column, reset_column with/without "
                "new options, clear_column, opens with wrong column count or one changed flag, opens of a missing database) "
                "replayed with the content of every plain column compared after every step; non-trivial = every behaviour "
                "(each has at least one failing open or an administration call)")
    rep.assumptions = ["content is tracked for columns without multitree/rc/preimage; other kinds take part as option records "
                       "and as victims/bystanders of administration calls"]
    vcore.build_harness()
    thorough = tier == "thorough"
    # round trip: exhaustive
    res = vcore.tlc_check("Admin.tla", os.path.join(vcore.SPEC, "MC_Admin_rt.cfg"), workers=1, timeout=1200)
    rep.add_model(res, "MC_Admin_roundtrip")
    behs, seen = [], set()
    for line in res["out"].splitlines():
        if line.startswith('"REPLAY '):
            s = json.loads(line)[7:]
            if s not in seen:
                seen.add(s)
                behs.append(json.loads(s))
    if not res["ok"] or len(behs) < 100:
        raise ToolError("round-trip enumeration failed (%d behaviours)" % len(behs))
    rep.extra["option_records_enumerated"] = len(behs)
    rep.extra["exhaustive_roundtrip"] = True
    generic_replay(rep, "admin-replay", behs, {}, "c17rt", "admin-replay")
    gbehs, gen, _ = vcore.tlc_simulate("Admin.tla", os.path.join(vcore.SPEC, "GEN_Admin.cfg"), 400 if thorough else 25, 16, SEED)
    rep.transitions += gen
    generic_replay(rep, "admin-replay", gbehs, {}, "c17", "admin-replay")
    # wide databases: 10..13 columns of mixed kinds, so that column numbers have two digits (order of the metadata
    # lines, file-name prefixes col 1 / col 10, add_column of an 11th column)
    wbehs, gen, _ = vcore.tlc_simulate("Admin.tla", os.path.join(vcore.SPEC, "GEN_Admin_wide.cfg"), 120 if thorough else 6, 12, SEED + 5)
    rep.transitions += gen
    rep.extra["wide_database_behaviours"] = len(wbehs)
    generic_replay(rep, "admin-replay", wbehs, {}, "c17w", "admin-replay")
    return rep.finish()


# ---------------------------------------------------------------------------
# C20: migration

@check("C20")
def c20(tier):
    rep = Report("C20", tier)
    rep.rule = ("TLC: all source histories of <= 3 set/reference/dereference operations x all pairs of hash-column option "
                "records (preimage, rc, compression) x overwrite x forced selection, with NoKeyLost / CountsCarryOver / "
                "SourceKept; behaviours generated by TLC (2 columns, 3 keys, values spread over size tiers incl. multipart, "
                "optionally a source with an index growth pending) replayed through parity_db::migrate and both databases "
                "projected (get + value iteration for counts); non-trivial = options differ or a column is forced")
    rep.assumptions = ["source and destination share the uniform flag and salt (hashing scheme kept)"]
    vcore.build_harness()
    thorough = tier == "thorough"
    res = vcore.tlc_check("Migrate.tla", os.path.join(vcore.SPEC, "MC_Migrate.cfg"), timeout=2400)
    rep.add_model(res, "MC_Migrate")
    if not res["ok"]:
        rep.violation("TLC: %s violated in Migrate.tla" % res["violated"], {"kind": "model", "cfg": "MC_Migrate", "tlc_tail": res["out"][-5000:]})
    else:
        log("[tlc] MC_Migrate: %d distinct states: ok" % res["distinct"])
    behs, gen, _ = vcore.tlc_simulate("Migrate.tla", os.path.join(vcore.SPEC, "GEN_Migrate.cfg"), 1500 if thorough else 300, 12, SEED)
    rep.transitions += gen
    generic_replay(rep, "migrate-replay", behs, {"seed": SEED}, "c20", "migrate-replay")
    return rep.finish()


# ---------------------------------------------------------------------------
# C15: the pipeline always drains

def workers_cfg(nclients, ncommits, maxq, maxl, maxlogs, minlog, faults, fix, live=False):
    def sset(xs):
        return "{" + ", ".join('"%s"' % x for x in xs) + "}"
    lines = ["CONSTANTS", "  NClients = %d" % nclients, "  NCommits = %d" % ncommits, "  MaxQ = %d" % maxq,
             "  MaxL = %d" % maxl, "  MaxLogs = %d" % maxlogs, "  MinLog = %d" % minlog,
             "  Faults = %s" % ("TRUE" if faults else "FALSE"), "  Fix = %s" % sset(fix),
             "SPECIFICATION %s" % ("FairSpec" if live else "Spec"), "INVARIANTS TypeOK AllPersisted"]
    if live:
        lines.append("PROPERTIES CommitReturns ShutdownTerminates AllLogged")
    return "\n".join(lines) + "\n"


@check("C15")
def c15(tier):
    rep = Report("C15", tier)
    rep.rule = ("TLC: clients, the four workers and the dropping thread with every mutex and condition variable explicit "
                "(bare condvars lose a notify sent without the waiter's mutex), thresholds 1, I/O fault in the log worker: "
                "deadlock freedom for 2 clients x 2 commits, liveness (every commit call returns, everything accepted is "
                "logged, drop terminates) under weak fairness on a smaller instance; necessity configs remove each of the "
                "three repairs and must deadlock. Implementation: the three counterexample schedules are forced on the real "
                "threads through the hook sink (a thread is held between its check and its park) and must not hang; commit "
                "storms, 5 MiB transactions and immediate drops run under a 60 s watchdog. Non-trivial = forced schedule "
                "that reached its window, or a storm round")
    rep.assumptions = ["byte counters abstracted to unit-size commits with thresholds 0..1",
                       "no spurious wake-ups", "the model's fairness = every thread that can run eventually runs"]
    vcore.build_harness()
    thorough = tier == "thorough"
    allfix = ("S1", "S2", "S7")
    # the protocol as implemented
    res = vcore.tlc_check("Workers.tla", write_cfg(workers_cfg(2, 2 if thorough else 1, 1, 1, 1, 0, True, allfix)), timeout=3000)
    rep.add_model(res, "MC_Workers(2 clients,faults)")
    if not res["ok"]:
        rep.violation("TLC: %s in Workers.tla (protocol as implemented)" % res["violated"],
                      {"kind": "model", "cfg": "MC_Workers", "tlc_tail": res["out"][-6000:]})
    else:
        log("[tlc] MC_Workers: %d distinct states, deadlock-free" % res["distinct"])
    res = vcore.tlc_check("Workers.tla", write_cfg(workers_cfg(1, 3, 1, 1, 1, 0, False, allfix)), timeout=3000)
    rep.add_model(res, "MC_Workers(1 client x 3)")
    if not res["ok"]:
        rep.violation("TLC: %s in Workers.tla (1 client x 3 commits)" % res["violated"],
                      {"kind": "model", "cfg": "MC_Workers_1x3", "tlc_tail": res["out"][-6000:]})
    if thorough:
        res = vcore.tlc_check("Workers.tla", write_cfg(workers_cfg(2, 2, 1, 1, 1, 1, False, allfix)), timeout=3000)
        rep.add_model(res, "MC_Workers(MinLog=1)")
        if not res["ok"]:
            rep.violation("TLC: %s in Workers.tla (MinLog=1)" % res["violated"],
                          {"kind": "model", "cfg": "MC_Workers_minlog", "tlc_tail": res["out"][-6000:]})
    res = vcore.tlc_check("Workers.tla", write_cfg(workers_cfg(1, 2, 0, 0, 0, 0, False, allfix, live=True)), workers=8, timeout=3000)
    rep.add_model(res, "MC_Workers_liveness")
    if not res["ok"]:
        rep.violation("TLC: liveness %s violated in Workers.tla" % res["violated"],
                      {"kind": "model", "cfg": "MC_Workers_live", "tlc_tail": res["out"][-6000:]})
    else:
        log("[tlc] MC_Workers liveness (CommitReturns, ShutdownTerminates, AllLogged): ok, %d states" % res["distinct"])
    # each repair is necessary: without it the model deadlocks
    for missing, faults in (("S1", True), ("S2", False), ("S7", False)):
        fix = tuple(x for x in allfix if x != missing)
        r = vcore.tlc_check("Workers.tla", write_cfg(workers_cfg(2, 2, 1, 1, 1, 0, faults, fix)), timeout=3000)
        rep.add_model(r, "MC_Workers_without_" + missing)
        if r["ok"]:
            raise ToolError("Workers.tla without repair %s is deadlock-free: the model does not justify the scenario" % missing)
        log("[tlc] necessity: without %s -> %s after %d states" % (missing, r["violated"], r["distinct"]))
    # all waiters must be woken when the queue drains below its limit
    if thorough:
        r = vcore.tlc_check("Workers.tla", write_cfg(workers_cfg(4, 1, 1, 1, 1, 0, False, allfix + ("one_wake",))), timeout=3000)
        rep.add_model(r, "MC_Workers_one_wake")
        if r["ok"]:
            raise ToolError("Workers.tla with a single wake-up at the crossing is deadlock-free: vacuous")
        log("[tlc] necessity: single wake-up at the crossing -> %s after %d states" % (r["violated"], r["distinct"]))
    # forced schedules on the real threads
    for which in ("S1", "S2", "S7", "FULLQ"):
        outcome = None
        for attempt in range(3):
            p = vcore.pdbh("workers-scenario", {"which": which, "watchdog": 15}, timeout=400)
            outcome = json.loads(p.stdout.strip().splitlines()[-1])
            if outcome.get("reached"):
                break
        rep.evaluations += 1
        if outcome.get("reached"):
            rep.nontrivial.add("forced:" + which)
        rep.extra.setdefault("forced_schedules", []).append(outcome)
        if outcome.get("hung"):
            rep.violation("forced schedule %s: %s" % (which, outcome.get("what")),
                          {"kind": "workers-scenario", "which": which})
        log("[forced] %s reached=%s hung=%s" % (which, outcome.get("reached"), outcome.get("hung")))
    # storms under a watchdog
    p = vcore.pdbh("workers-live", {"seed": SEED, "rounds": 10 if thorough else 3, "watchdog": 60}, timeout=1500)
    summary = json.loads(p.stdout.strip().splitlines()[-1])
    rep.evaluations += summary["rounds"]
    for r in range(summary["rounds"]):
        rep.nontrivial.add("storm:%d" % r)
    rep.extra["storm_commits"] = summary["commits"]
    for pr in summary["problems"]:
        rep.violation("storm: " + pr, {"kind": "workers-live", "seed": SEED})
    # tree columns: a dereference postponed because a reader holds the tree, alone in the queue, must be logged once
    # the reader is gone without any further commit (the log worker may not go to sleep on it)
    for var in ("", "rc"):
        p = vcore.pdbh("mtree-scenario", {"which": "QUIET", "variant": var}, timeout=300)
        line = [l for l in p.stdout.splitlines() if l.startswith("{")]
        if not line:
            raise ToolError("mtree-scenario QUIET printed no result")
        r = json.loads(line[-1])
        if not r.get("reached"):
            raise ToolError("scenario QUIET: no reader lock was obtained")
        rep.evaluations += 1
        rep.nontrivial.add("quiet-defer-%s" % var)
        for v in r["violations"]:
            rep.violation("postponed dereference: %s" % v, {"kind": "mtree-scenario", "which": "QUIET", "variant": var})
        log("[scenario] QUIET variant=%r: %d violations" % (var, len(r["violations"])))
    rep.sample({"forced_schedules": rep.extra.get("forced_schedules"), "storm": summary})
    return rep.finish()


# ---------------------------------------------------------------------------
# C19: index page search

@check("C19")
def c19(tier):
    rep = Report("C19", tier)
    rep.rule = ("TLC: both search functions transcribed at width N=8, block W=4; every page over an entry domain of 4 (5) "
                "values (empty, equal compared bits with different dropped bits, zero compared bits), every key and start "
                "position: the four clauses of C19 as invariants (exhaustive for the bounded domain); a 1% sample of the "
                "cases with the specification's answers is embedded into real 64-slot pages (window at slot 0, 4, 28, 56; "
                "index sizes 16, 17, 18, 20, 32, 40) and both private functions are called through the hook: they must "
                "return exactly the specification's positions; non-trivial = start position > 0 or fast != scalar answer")
    rep.assumptions = ["full-width behaviour is sampled through the embedding; exhaustiveness is at the model's width",
                       "x86_64: the vectorised path is find_entry_sse2"]
    vcore.build_harness()
    thorough = tier == "thorough"
    cfg = open(os.path.join(vcore.SPEC, "MC_PageSearch.cfg")).read()
    if thorough:
        cfg = cfg.replace("Dom <- Dom4", "Dom <- Dom5")
    res = vcore.tlc_check("MCPageSearch.tla", write_cfg(cfg), timeout=3400, heap="14g")
    rep.add_model(res, "MC_PageSearch")
    rep.extra["exhaustive"] = True
    if not res["ok"]:
        rep.violation("TLC: %s violated in PageSearch.tla" % res["violated"],
                      {"kind": "model", "cfg": "MC_PageSearch", "tlc_tail": res["out"][-5000:]})
        return rep.finish()
    cases = []
    for line in res["out"].splitlines():
        if line.startswith('"REPLAY '):
            cases.append(json.loads(json.loads(line)[7:]))
    if len(cases) < 1000:
        raise ToolError("too few sampled cases (%d)" % len(cases))
    log("[tlc] MC_PageSearch: %d cases checked, %d sampled for replay" % (res["distinct"], len(cases)))
    inp = os.path.join(vcore.scratch(), "ps.ndjson")
    outp = os.path.join(vcore.scratch(), "ps.res")
    vcore.write_ndjson(inp, cases)
    p = vcore.pdbh("pagesearch-replay", {"in": inp, "out": outp, "seed": SEED})
    summary = json.loads(p.stdout.strip().splitlines()[-1])
    rep.behaviours += len(cases)
    rep.evaluations += summary["calls"]
    for c in cases:
        if c["p"] > 0 or c["fast"] != c["base"]:
            rep.nontrivial.add(vcore.beh_hash(c))
    rep.sample(cases[0])
    rep.sample(cases[len(cases) // 2])
    for r in vcore.read_ndjson(outp):
        for v in r["violations"]:
            rep.violation("%s: %s" % (v["a"], v["what"]), {"kind": "pagesearch", "case": cases[r["i"]], "seed": SEED})
    log("[replay] %d sampled cases, %d real calls" % (len(cases), summary["calls"]))
    return rep.finish()


# ---------------------------------------------------------------------------
# C14: structural soundness;  C06: values of every size

C14_COLS = [
    [{"kind": "hash"}, {"kind": "btree"}],
    [{"kind": "rc"}, {"kind": "hash", "uniform": True, "grow": True}],
    [{"kind": "btree_rc"}, {"kind": "hash", "comp": "lz4", "threshold": 0}],
    [{"kind": "hash", "uniform": True, "preimage": True, "grow": True}, {"kind": "btree", "comp": "snappy"}],
]


@check("C14")
def c14(tier):
    rep = Report("C14", tier)
    rep.rule = ("The structural invariants are TLA+ predicates (TracePdb.tla DumpOK: free list acyclic / in range / holding "
                "exactly the free slots, every slot below the fill mark free or in exactly one value chain, every value head "
                "indexed, number of stored values = number of live keys of the model, btree sorted / uniform depth / every used "
                "slot reached exactly once) that TLC evaluates on the raw on-disk structure dumped from the implementation "
                "whenever the model says the pipeline is drained (after clean-up steps, clean reopens and crash recoveries of "
                "recorded random histories), plus steady insert-all / remove-all rounds whose fill marks must stop growing; the "
                "pipeline model itself is checked by TLC (Pdb.tla); non-trivial = recorded history (each has >= 10 dumps after "
                "removals, tier moves, recoveries)")
    rep.assumptions = ["the dump hook reads the table files directly; it is evaluated only in states the model calls drained",
                       "slot decoding (markers, next pointers) in the harness follows the documented layout of table.rs"]
    vcore.build_harness()
    thorough = tier == "thorough"
    kw = dict(kind="hr", nkeys=1, nvals=1, maxcalls=2, maxops=2, maxcrash=1, fine=True, feat=("crash", "restart"),
              view="ViewNoTrace", invariants=CRASH_INV)
    run_model(rep, pdb_cfg(**kw), "MC_C14(pipeline model hr)")
    ntr = 12 if thorough else 3
    for j in range(ntr):
        cols = C14_COLS[(j + SEED) % len(C14_COLS)]
        # (a counting btree column keeps one recovery candidate per reference count that no observation can tell apart:
        # the candidates of successive crashes multiply, so its histories stay short - thorough runs more of them)
        counted_btree = any(c["kind"] == "btree_rc" for c in cols)
        record_and_validate(rep, cols, 12, 5, (300 if counted_btree else 900) if thorough else 220, SEED * 419 + j, crash=3,
                            label="c14t%d" % j, small=(j % 2 == 1), dumps=True, steady=4)
    # larger btree (depth >= 2) and many keys per hash page
    record_and_validate(rep, [{"kind": "btree", "noempty": True}], 150 if thorough else 60, 3, 1200 if thorough else 260,
                        SEED * 31 + 5, crash=2, label="c14bt", small=True, dumps=True, steady=3)
    # keys that share every index-visible hash bit, on a page that overflows (index growth, several generations):
    # every live value must stay reachable through the index
    for j in range(3 if thorough else 1):
        record_and_validate(rep, [{"kind": "hash", "uniform": True, "collide": True, "deep": j % 2 == 1}], 80, 3,
                            1500 if thorough else 600, SEED * 37 + j, crash=2, label="c14col%d" % j, small=True, dumps=True)
    rep.extra["dump_events_checked"] = "counted by TLC as matched Dump events in the traces"
    # tree columns (MultiTree.tla): node reference counts = number of referencing parents, every slot free / live
    # node / stored root, also after a crash.  The model accounts for slots claimed at commit time by transactions
    # that the crash loses (their claim is carried by the table header another record logged): NoLeak fails in the
    # model and the replay shows the same slots orphaned in the files -> known finding F19.
    r = vcore.tlc_check("MCMultiTree.tla", write_cfg(mt_cfg(fine=False, shapes="ShapesTiny", maxids=4, maxcommits=4, maxcrash=1,
                                                              invariants=("TypeOK", "NoCorrupt", "IdealVisible", "FinalState"))),
                        timeout=1800)
    rep.add_model(r, "MC_MultiTree_crash")
    if not r["ok"]:
        rep.violation("TLC: %s violated in MultiTree.tla with crashes" % r["violated"], {"kind": "model", "cfg": "MC_MultiTree_crash", "tlc_tail": r["out"][-5000:]})
    r = vcore.tlc_check("MCMultiTree.tla", write_cfg(mt_cfg(fine=False, shapes="ShapesTiny", maxids=3, maxcommits=3, maxcrash=1,
                                                              invariants=("TypeOK", "NoLeak"))), timeout=1200)
    rep.add_model(r, "MC_MultiTree_crash_noleak")
    if not r["ok"]:
        rep.violation("slot leak after crash: model: %s violated (slots claimed at commit time by transactions lost in the crash "
                      "are carried by the table header another record logged)" % r["violated"],
                      {"kind": "model", "cfg": "MC_MultiTree_crash_noleak", "tlc_tail": r["out"][-5000:]})
    for j, var in enumerate(["", "rc,pads", "direct"] + (["pads", "rc", "direct,pads"] if thorough else [])):
        vs = var.split(",")
        # (every other variant with transactions that insert a tree and dereference another one - Swap)
        behs = mt_generate(rep, 80 if thorough else 12, 32, SEED * 31 + j, rc="rc" in vs, fine=False, shapes="ShapesWide",
                           maxids=14, maxcommits=10, maxlocks=0, maxcrash=3, nt=3, nv=2, swap=(j % 2 == 1))
        rep.extra["tree_crashes_replayed"] = rep.extra.get("tree_crashes_replayed", 0) + sum(
            1 for b in behs for e in b["steps"] if e.get("a") == "Crash")
        generic_replay(rep, "mtree-replay", behs, {"seed": SEED + 90 + j, "variant": var}, "c14m_%d" % j, "mtree-replay")
    # btree columns (BTreeNode.tla): no unreachable node, no child lost - the stored shape is the specification's
    # after every operation on canonical and random trees (every structural transition required to occur)
    btree_node_part(rep, thorough, "c14", light=not thorough)
    # value tables (Slots.tla): fill mark, free-list order and the slots of every chain are the specification's after
    # every commit, enacted record and crash recovery
    slots_part(rep, thorough, "c14")
    return rep.finish()


C06_COLS = [
    [{"kind": "hash"}],
    [{"kind": "hash", "comp": "lz4", "threshold": 0}],
    [{"kind": "btree"}],
    [{"kind": "hash", "comp": "snappy", "threshold": 4096}],
    [{"kind": "btree", "comp": "lz4", "threshold": 100}],
    [{"kind": "hash", "comp": "lz4", "threshold": 4000000000}],
]


@check("C06")
def c06(tier):
    rep = Report("C06", tier)
    rep.rule = ("Values are model value ids; in boundary mode the harness maps id v to a value of the v-th boundary length of "
                "the column's storage layout (for each of the 255 size tiers the largest length that fits, one less, one more; "
                "the multipart part boundaries for 2..5 parts; 0..5 bytes; 1 MiB + 1; 3 MB), compressible or not by parity of v. "
                "Recorded histories sweep through every id, overwrite keys with values of other sizes (tier moves, single <-> "
                "chained) at every pipeline stage, with restarts and crashes; TLC validates every read (bit-exact via the id "
                "embedded in the bytes and full regeneration) against Pdb.tla, and the structural dumps (no leaked / "
                "double-used slot, one stored value per live key) whenever the model is drained; steady rounds check that "
                "released slots are reused. Non-trivial = recorded history; evaluations = values written")
    rep.assumptions = ["TLC decides the value identity per read; the byte comparison of a read with the regenerated value is "
                       "done by the harness (projection)", "compression none / lz4 / snappy with thresholds 0, 100, 4096 and u32::MAX-like"]
    vcore.build_harness()
    thorough = tier == "thorough"
    kw = dict(kind="hb", nkeys=1, nvals=2, maxcalls=3 if thorough else 2, maxops=2, fine=True, feat=("restart",),
              view="ViewLogical", invariants=("TypeOK", "ReadLatest", "LayerHandOver", "DrainedIsAll"))
    run_model(rep, pdb_cfg(**kw), "MC_C06(pipeline model hb)")
    written = 0
    cols_list = C06_COLS if thorough else C06_COLS[:3]
    for j, cols in enumerate(cols_list):
        out = os.path.join(vcore.scratch(), "trace_c06_%d.ndjson" % j)
        steps = 2600 if thorough else 2300
        args = {"out": out, "cols": json.dumps(cols), "nkeys": 5, "nvals": 1, "steps": steps, "seed": SEED * 7 + j,
                "crash": 1, "boundary": True, "dumps": True, "steady": 3}
        p = vcore.pdbh("pdb-record", args, timeout=2400)
        summary = json.loads(p.stdout.strip().splitlines()[-1])
        for pr in summary.get("problems", []):
            rep.violation("driver: %s [cols=%s]" % (pr, model_kinds(cols)), {"kind": "pdb-record-boundary", "args": args})
        written += summary.get("values_swept", 0)
        rep.extra.setdefault("boundary_lengths_per_column", []).append(summary.get("nvals"))
        if summary.get("values_swept", 0) < summary.get("nvals", 0):
            raise ToolError("the sweep did not reach every boundary length (%s of %s)" % (summary.get("values_swept"), summary.get("nvals")))
        res = validate_trace(rep, out, cols, 5, summary.get("nvals", 1), "c06_%d" % j, {"cmd": "pdb-record", "args": args},
                             initrid=summary.get("init_rid", 1), initcid=summary.get("init_cid", 0))
        trace_event_counts(rep, out)
        rep.nontrivial.add("c06:%d" % j)
        log("[trace] c06_%d cols=%s: %d events, %d values over %d boundary lengths, matched %s/%s"
            % (j, model_kinds(cols), summary.get("events", 0), summary.get("values_swept", 0), summary.get("nvals", 0),
               res.get("matched"), res.get("total")))
    # chains overwritten by chains: every value of these columns is stored in parts (33 .. 100 KB), values whose ids
    # have the same parity agree byte for byte in their second and third part, and a key is overwritten again
    # while earlier overwrites are still in the log overlay (A applied, B planned, C planned: C = A in whole parts)
    multi = [[{"kind": "hash", "multi": True}], [{"kind": "btree", "multi": True}, {"kind": "rc", "multi": True}]]
    for j, cols in enumerate(multi + ([[{"kind": "hash", "multi": True, "comp": "lz4", "threshold": 0}]] if thorough else [])):
        record_and_validate(rep, cols, 3, 6, 900 if thorough else 450, SEED * 83 + j, crash=1, label="c06m%d" % j, dumps=True)
    # storage of an overwritten / removed value is released and reused (Slots.tla): addresses predicted by the
    # specification, plain and compressed chains
    slots_part(rep, thorough, "c06", rc=thorough)
    rep.evaluations += written
    rep.extra["values_written"] = written
    rep.sample({"boundary_lengths_first": "0,1,2,3,4,5, then cap-1/cap/cap+1 of each of 255 tiers, multipart boundaries, 1048577, 3000001"})
    return rep.finish()


# ---------------------------------------------------------------------------
# C09: index growth and collisions

def index_cfg(nk, pfx, p, maxslots, maxops, mut=(), batch=1):
    def sset(xs):
        return "{" + ", ".join('"%s"' % x for x in xs) + "}"
    return ("CONSTANTS\n  NK = %d\n  B = 2\n  Pfx <- %s\n  P = %d\n  MaxSlots = %d\n  BatchPages = %d\n  MaxOps = %d\n  Mut = %s\n"
            "SPECIFICATION Spec\nCONSTRAINT NoOverflow\nINVARIANTS Findable OneSlotPerKey GensOrdered Bound\nCHECK_DEADLOCK FALSE\n"
            % (nk, pfx, p, maxslots, batch, maxops, sset(mut)))


@check("C09")
def c09(tier):
    rep = Report("C09", tier)
    rep.rule = ("TLC: Index.tla, the physical index of one column (generations that double, pages of P entries storing only "
                "hash-prefix bits, value slots holding the key tail, two size tiers): all histories of insert / replace in "
                "place / replace with a tier move / remove over keys of which pairs collide on every stored bit, interleaved "
                "with reindex batches (page by page), generation drops and restarts; invariants Findable (every live key "
                "resolves to its own slot through some generation, dead keys to nothing) and OneSlotPerKey; a necessity "
                "config re-creates the defect fixed in a92aa7f. Implementation: recorded histories over 80 keys that share one "
                "16-bit index chunk (groups of 5 agree on all 64 index-visible bits), so the index grows during the history, "
                "with reindex batches, restarts and crashes interleaved; TLC validates every read against Pdb.tla and the "
                "structural dumps (every stored value indexed, one value per live key)")
    rep.assumptions = ["uniform keys with zero salt (instrumentation identity hash) place keys in chosen index chunks",
                       "the model's page capacity is 3; the implementation's 64 is reached with 80 colliding keys"]
    vcore.build_harness()
    thorough = tier == "thorough"
    res = vcore.tlc_check("MCIndex.tla", write_cfg(index_cfg(5, "Pfx5", 3, 4, 7 if thorough else 6)), timeout=3400)
    rep.add_model(res, "MC_Index(5 keys, P=3)")
    if not res["ok"]:
        rep.violation("TLC: %s violated in Index.tla" % res["violated"], {"kind": "model", "cfg": "MC_Index", "tlc_tail": res["out"][-6000:]})
    else:
        log("[tlc] MC_Index: %d distinct states: ok" % res["distinct"])
    r = vcore.tlc_check("MCIndex.tla", write_cfg(index_cfg(5, "Pfx5", 3, 4, 7, mut=("no_retry",))), timeout=3400)
    rep.add_model(r, "MC_Index_noguard_no_retry")
    if r["ok"]:
        raise ToolError("Index.tla without the grow-and-retry on a moved value passes: vacuous")
    log("[tlc] necessity no_retry: %s after %d states" % (r["violated"], r["distinct"]))
    colsets = [
        [{"kind": "hash", "uniform": True, "collide": True}],
        [{"kind": "hash", "uniform": True, "collide": True, "comp": "lz4", "threshold": 0}, {"kind": "hash"}],
        [{"kind": "rc", "uniform": True, "collide": True}],
        # growth triggered from a reindex batch: 80 keys share 18 hash bits, two generations pending at once
        [{"kind": "hash", "uniform": True, "collide": True, "deep": True}],
        # keys whose partial key is zero in every bit the vectorised page search compares and non-zero in the bits it
        # drops (every sixteenth key), on pages where removals leave free slots in front of live entries
        [{"kind": "hash", "uniform": True, "collide": True, "zeropk": True}],
    ]
    ntr = 15 if thorough else 5
    growth = {"reindex_records": 0, "traces_with_growth": 0, "traces_with_two_pending_generations": 0, "max_index_bits": 16}
    for j in range(ntr):
        cols = colsets[j % len(colsets)]
        record_and_validate(rep, cols, 80, 3, 2200 if thorough else 1000, SEED * 61 + j, crash=2, label="c09t%d" % j,
                            small=True, dumps=True)
        nre, gens = 0, set()
        for e in vcore.read_ndjson(os.path.join(vcore.scratch(), "trace_c09t%d.ndjson" % j)):
            if e.get("e") == "ReindexRecord":
                nre += 1
            elif e.get("e") == "Dump" and e.get("kind") == "hash":
                gens.add(tuple(e.get("gens", [])))
        growth["reindex_records"] += nre
        growth["traces_with_growth"] += 1 if any(g and max(g) > 16 for g in gens) else 0
        growth["traces_with_two_pending_generations"] += 1 if (any(len(g) >= 2 for g in gens) and any(g and max(g) >= 18 for g in gens)) else 0
        growth["max_index_bits"] = max([growth["max_index_bits"]] + [max(g) for g in gens if g])
    res = record_and_validate(rep, colsets[0], 80, 3, 400, SEED * 67, crash=2, label="c09gc", small=True, dumps=True,
                              growth_crash=True)
    rep.extra["crash_right_after_old_index_unlinked"] = sum(
        1 for a, b in zip(vcore.read_ndjson(os.path.join(vcore.scratch(), "trace_c09gc.ndjson"))[:-1],
                          vcore.read_ndjson(os.path.join(vcore.scratch(), "trace_c09gc.ndjson"))[1:])
        if b.get("e") == "Crash" and a.get("e") == "Sys" and a.get("call") == "unlink" and str(a.get("f", "")).startswith("index"))
    if rep.extra["crash_right_after_old_index_unlinked"] == 0:
        raise ToolError("the scripted growth-crash trace did not crash right after the unlink of the old index: vacuous")
    rep.extra["index_growth_in_traces"] = growth
    if rep.extra.get("aligned_collider_ops", 0) < 3:
        raise ToolError("C09 traces hold fewer than 3 directed operations on slot-aligned colliding keys of two index "
                        "generations (%s): vacuous" % rep.extra.get("aligned_collider_ops"))
    if growth["traces_with_growth"] < ntr - 1 or growth["traces_with_two_pending_generations"] == 0:
        raise ToolError("C09 traces did not grow the index (%s): vacuous" % growth)
    return rep.finish()


# ---------------------------------------------------------------------------
# C10 / C11: multitree columns (spec/MultiTree.tla)

def mt_cfg(rc=False, ao=False, fine=False, shapes="ShapesSmall", maxids=5, maxcommits=4, maxlocks=0, maxdefers=2, maxcrash=0,
           nt=2, nv=1, fix=("F18", "F20"), mut=(), gen=False, genlen=30, invariants=None, pipes=("flush", "enact", "clean"),
           rejw=6, script=None, swap=False):
    b = lambda x: "TRUE" if x else "FALSE"
    sset = lambda xs: "{" + ", ".join('"%s"' % x for x in xs) + "}"
    lines = ["SPECIFICATION %s" % ("ScriptSpec" if script else "GenSpec" if gen else "MCSpec"), "CONSTANTS",
             "  Script <- %s" % (script or "ScriptNone"),
             "  NT = %d" % nt, "  NX = 1", "  NV = %d" % nv, "  MaxIds = %d" % maxids, "  MaxCommits = %d" % maxcommits,
             "  MaxLocks = %d" % maxlocks, "  MaxCrash = %d" % maxcrash, "  MaxDefers = %d" % maxdefers, "  RcRoots = %s" % b(rc), "  AO = %s" % b(ao),
             "  Fine = %s" % b(fine), "  Fix = %s" % sset(fix), "  Mut = %s" % sset(mut), "  NoHist = %s" % b(not gen), "  Swap = %s" % b(swap),
             "  Shapes <- %s" % shapes,
             "  GenLen = %d" % genlen, "  Pipes = %s" % sset(pipes), "  RejW = %d" % rejw]
    if script:
        lines += ["INVARIANTS TypeOK EmitScript"]
    elif gen:
        lines += ["INVARIANTS TypeOK EmitTrace"]
    else:
        inv = invariants or ("TypeOK", "NoCorrupt", "ReaderStable", "IdealVisible", "XVisible", "FinalState")
        lines += ["INVARIANTS " + " ".join(inv), "VIEW ViewNoHist"]
    lines += ["CONSTRAINT DeferBound", "CHECK_DEADLOCK FALSE"]
    return "\n".join(lines) + "\n"


def mt_generate(rep, num, depth, seed, **kw):
    kw.update(gen=True, genlen=depth)
    behs, gen, _ = vcore.tlc_simulate("MCMultiTree.tla", write_cfg(mt_cfg(**kw)), num, depth, seed)
    rep.transitions += gen
    return behs


def mt_scripted(rep, script, limit=40, **kw):
    """all behaviours of MultiTree.tla that follow a script (MCMultiTree.tla ScriptSpec), enumerated breadth first"""
    kw.update(gen=True, script=script)
    res = vcore.tlc_check("MCMultiTree.tla", write_cfg(mt_cfg(**kw)), workers=1, timeout=1200)
    behs = []
    for line in res["out"].splitlines():
        if line.startswith('"REPLAY '):
            try:
                behs.append(json.loads(json.loads(line)[7:]))
            except ValueError:
                pass
    rep.add_model(res, "SCRIPT_MultiTree(%s)" % script)
    if not behs:
        raise ToolError("script %s: the specification has no behaviour that follows it" % script)
    # spread the sample over the enumeration
    step = max(1, len(behs) // limit)
    return behs[::step][:limit]


def mt_scenario(rep, which, variant=""):
    """forced schedule on the real code (hook sink holds the log worker after its deferral check)"""
    p = vcore.pdbh("mtree-scenario", {"which": which, "variant": variant}, timeout=300)
    line = [l for l in p.stdout.splitlines() if l.startswith("{")]
    if not line:
        raise ToolError("mtree-scenario %s printed no result" % which)
    r = json.loads(line[-1])
    rep.behaviours += 1
    rep.evaluations += 1
    if not r.get("reached"):
        raise ToolError("scenario %s: the log worker never reached the gated point (hook missing?)" % which)
    rep.nontrivial.add("scenario-%s-%s" % (which, variant))
    rep.extra.setdefault("forced_schedules", []).append({"which": which, "variant": variant, "lock_blocked": r.get("lock_blocked"),
                                                         "reused_node_under_lock": r.get("reused")})
    for v in r["violations"]:
        rep.violation("forced schedule %s: %s" % (which, v), {"kind": "mtree-scenario", "which": which, "variant": variant})
    log("[scenario] %s variant=%r: %s, %d violations"
        % (which, variant, ("reader lock " + ("waited for the log worker" if r.get("lock_blocked") else "was granted")) if which == "F18"
           else "schedule forced", len(r["violations"])))


def mt_record_and_validate(rep, variant, steps, seed, crash=0, nt=5, maxids=300, label=""):
    """implementation -> specification for tree columns: a random driver (reader threads, stepping pipeline, restarts,
    crashes, rejected transactions) records client calls, hook-derived Process/Defer events and projections of what the
    implementation returns; TLC checks the recorded history against TraceMultiTree.tla"""
    out = os.path.join(vcore.scratch(), "mttrace_%s.ndjson" % label)
    args = {"out": out, "steps": steps, "seed": seed, "variant": variant, "nt": nt, "maxids": maxids, "crash": crash}
    p = vcore.pdbh("mtree-record", args)
    summary = json.loads(p.stdout.strip().splitlines()[-1])
    vs = variant.split(",")
    for pr in summary.get("problems", []):
        rep.violation("driver: %s [variant=%s seed=%d]" % (pr, variant, seed), {"kind": "mtree-record", "args": args})
    b = lambda x: "TRUE" if x else "FALSE"
    cfg = write_cfg("\n".join([
        "SPECIFICATION TraceSpec", "CONSTANTS", "  NT = %d" % nt, "  NX = 2", "  NV = 3", "  MaxIds = %d" % maxids,
        "  MaxCommits = 1000000", "  MaxLocks = 1000000", "  MaxCrash = 1000000", "  RcRoots = %s" % b("rc" in vs),
        "  AO = %s" % b("ao" in vs), "  Fine = FALSE", '  Fix = {"F18", "F20"}', "  Mut = {}", "  NoHist = TRUE", "  Swap = FALSE", "  Shapes <- NoShapes",
        "VIEW TraceView", "INVARIANTS TypeOK NoCorrupt ReaderStable IdealVisible XVisible FinalState",
        "POSTCONDITION TraceAccepted", "CHECK_DEADLOCK FALSE"]) + "\n")
    res = vcore.tlc_trace("MCTraceMultiTree.tla", cfg, out)
    rep.traces += 1
    rep.evaluations += 1
    rep.transitions += res.get("generated", 0)
    rep.extra["trace_events_validated"] = rep.extra.get("trace_events_validated", 0) + max(res.get("matched", 0), 0)
    tc = rep.extra.setdefault("tree_trace_counts", {})
    for k in ("events", "commits", "defers", "crashes", "restarts", "trees_with_shared_nodes", "ids"):
        tc[k] = tc.get(k, 0) + int(summary.get(k, 0))
    if not res["accepted"]:
        first = " ".join(l.strip() for l in res["out"].splitlines() if "TRACE-FIRST-UNMATCHED" in l or "is violated" in l)
        os.makedirs(vcore.REPLAYS, exist_ok=True)
        keep = os.path.join(vcore.REPLAYS, "%s_mttrace_%s.ndjson" % (rep.prop, label))
        import shutil
        shutil.copyfile(out, keep)
        rep.violation("recorded tree history rejected by the specification after %s of %s events: %s [variant=%s]"
                      % (res.get("matched"), res.get("total"), first[:300], variant),
                      {"kind": "mtree-trace", "trace": keep, "args": args})
    rep.nontrivial.add("mttrace:%s:%d" % (label, seed))
    log("[trace] %s variant=%r: %s events (%s commits, %s defers, %s crashes), matched %s/%s"
        % (label, variant, summary.get("events"), summary.get("commits"), summary.get("defers"), summary.get("crashes"),
           res.get("matched"), res.get("total")))
    return res, summary


def mt_live_and_validate(rep, variant, trees, seed, label=""):
    """free-running threads (real background workers, writer, pruner, two readers): the recorded history must be a
    behaviour of TraceMultiTreeLive.tla (lock acquisition and the deferral check are silent steps between events)"""
    out = os.path.join(vcore.scratch(), "mtlive_%s.ndjson" % label)
    args = {"out": out, "trees": trees, "seed": seed, "variant": variant}
    p = vcore.pdbh("mtree-live", args, timeout=600)
    summary = json.loads(p.stdout.strip().splitlines()[-1])
    for pr in summary.get("problems", []):
        rep.violation("driver: %s [variant=%s seed=%d]" % (pr, variant, seed), {"kind": "mtree-live", "args": args})
    vs = variant.split(",")
    b = lambda x: "TRUE" if x else "FALSE"
    cfg = write_cfg("\n".join([
        "SPECIFICATION TraceSpec", "CONSTANTS", "  NT = %d" % summary.get("nt", 6), "  NX = 1", "  NV = 1",
        "  MaxIds = %d" % (int(summary.get("ids", 0)) + 20), "  MaxCommits = 1000000", "  MaxLocks = 1000000", "  MaxCrash = 0",
        "  RcRoots = %s" % b("rc" in vs), "  AO = FALSE", "  Fine = TRUE", '  Fix = {"F18", "F20"}', "  Mut = {}", "  NoHist = TRUE", "  Swap = FALSE",
        "  Shapes <- NoShapes", "VIEW TraceView", "CONSTRAINT TrackL",
        "INVARIANTS TypeOK NoCorrupt ReaderStable IdealVisible FinalState", "POSTCONDITION TraceAccepted",
        "CHECK_DEADLOCK FALSE"]) + "\n")
    res = vcore.tlc_trace("MCTraceMultiTreeLive.tla", cfg, out)
    rep.traces += 1
    rep.evaluations += 1
    rep.transitions += res.get("generated", 0)
    rep.extra["trace_events_validated"] = rep.extra.get("trace_events_validated", 0) + max(res.get("matched", 0), 0)
    tc = rep.extra.setdefault("live_tree_trace_counts", {})
    for k in ("events", "commits", "defers", "locks", "lock_misses", "ids"):
        tc[k] = tc.get(k, 0) + int(summary.get(k, 0))
    if not res["accepted"]:
        first = " ".join(l.strip() for l in res["out"].splitlines() if "TRACE-FIRST-UNMATCHED" in l or "is violated" in l)
        os.makedirs(vcore.REPLAYS, exist_ok=True)
        keep = os.path.join(vcore.REPLAYS, "%s_mtlive_%s.ndjson" % (rep.prop, label))
        import shutil
        shutil.copyfile(out, keep)
        rep.violation("history of the free-running threads rejected by the specification after %s of %s events: %s [variant=%s]"
                      % (res.get("matched"), res.get("total"), first[:300], variant),
                      {"kind": "mtree-live-trace", "trace": keep, "args": args})
    rep.nontrivial.add("mtlive:%s:%d" % (label, seed))
    log("[trace] %s live variant=%r: %s events (%s commits, %s defers, %s locks, %s misses), matched %s/%s"
        % (label, variant, summary.get("events"), summary.get("commits"), summary.get("defers"), summary.get("locks"),
           summary.get("lock_misses"), res.get("matched"), res.get("total")))
    return res, summary


@check("C10")
def c10(tier):
    rep = Report("C10", tier)
    rep.rule = ("MultiTree.tla (roots, node ids standing for addresses claimed at commit time, node reference counts, commit "
                "overlay, queue, sequential ghost state) model-checked for every history of InsertTree (menu of child lists: "
                "new leaves, new inner nodes, existing nodes incl. the same node twice and below a new node) / ReferenceTree / "
                "DereferenceTree x every schedule of the log worker, for plain, ref-counted-root and append-only columns: "
                "NoCorrupt (no freed node is incremented, decremented or walked), IdealVisible (every tree that is live for the "
                "client reads back with the data and child order supplied, all descendants present), FinalState (exactly the "
                "nodes reachable from live trees occupy storage); necessity config without the increment of existing "
                "children.  TLC-generated behaviours (trees, pipeline steps, clean restarts, transactions that must be "
                "rejected: fan-out 256/300, dereference of a missing tree, plain operation on the tree column, valid "
                "InsertTree followed by an invalid operation) are replayed: after every step every visible tree is traversed "
                "through get_tree + TreeReader (and get_root/get_node on direct-access columns) with the id<->address "
                "bijection checked, get_num_column_value_entries compared with live nodes + stored roots, and, when drained, "
                "the ref-count table compared with the model's counts; node and root sizes range over 0 bytes .. multi-part, "
                "fan-out up to exactly 255; non-trivial = behaviour with an existing child or a deferral")
    rep.assumptions = ["distinct live root keys (a key is inserted again only after its tree was dereferenced)",
                       "existing children name nodes of trees that are live for the client"]
    vcore.build_harness()
    thorough = tier == "thorough"
    mc = 5 if thorough else 4
    for label, kw in [("plain", dict()), ("rc_roots", dict(rc=True)), ("append_only", dict(ao=True))]:
        run_model(rep, mt_cfg(fine=False, shapes="ShapesWide" if thorough else "ShapesSmall", maxids=6 if thorough else 5,
                              maxcommits=mc, maxlocks=0, nt=2, nv=1, **kw),
                  "MC_MultiTree_%s" % label, module="MCMultiTree.tla", timeout=3400)
    r = vcore.tlc_check("MCMultiTree.tla", write_cfg(mt_cfg(fine=False, maxcommits=4, mut=("no_inc",))), timeout=1200)
    rep.add_model(r, "MC_MultiTree_noguard_no_inc")
    if r["ok"]:
        raise ToolError("MultiTree.tla without the increment of existing children passes: vacuous")
    log("[tlc] necessity no_inc: %s after %d states" % (r["violated"], r["distinct"]))
    # the replay is sensitive: a behaviour whose expected observation was tampered with must be reported
    tb = mt_generate(rep, 4, 24, SEED * 13, fine=False, shapes="ShapesWide", maxids=14, maxcommits=8, maxlocks=0, nt=3, nv=2)
    tampered = []
    for b in tb:
        m = json.loads(json.dumps(b))
        hit = False
        for o in m["obs"][len(m["obs"]) // 2:]:
            for v in o["vis"]:
                if v["rc"] > 0 and not hit:
                    v["data"] = v["data"] + 1000
                    hit = True
            if hit:
                break
        if hit:
            tampered.append(m)
    if not tampered:
        raise ToolError("replay self-test: no behaviour with a live tree to tamper with")
    inp = os.path.join(vcore.scratch(), "beh_c10_tampered.ndjson")
    outp = os.path.join(vcore.scratch(), "res_c10_tampered.ndjson")
    vcore.write_ndjson(inp, tampered)
    vcore.pdbh("mtree-replay", {"in": inp, "out": outp, "seed": SEED, "variant": ""})
    caught = sum(1 for r in vcore.read_ndjson(outp) if r["violations"])
    if caught != len(tampered):
        raise ToolError("replay ACCEPTED %d of %d tampered behaviours: the binding is not sensitive" % (len(tampered) - caught, len(tampered)))
    rep.extra["binding_selftest"] = "%d behaviours with a changed expected root: all reported" % caught
    variants = ["", "rc", "direct", "ao", "direct,pads", "big", "pads", "rc,direct,pads,big"]
    if thorough:
        variants += ["direct,big,pads", "rc,big", "ao,big,pads", "rc,pads"]
    num = 120 if thorough else 14
    for j, var in enumerate(variants):
        vs = var.split(",")
        # (every other variant: insertions may dereference another tree in the same transaction - Swap)
        behs = mt_generate(rep, num, 34 if thorough else 30, SEED * 17 + j, rc="rc" in vs, ao="ao" in vs, fine=False,
                           shapes="ShapesWide", maxids=14, maxcommits=10, maxlocks=0, nt=3, nv=2, swap=(j % 2 == 1 and "ao" not in vs))
        rep.extra["insert_and_dereference_transactions"] = rep.extra.get("insert_and_dereference_transactions", 0) + sum(
            1 for b in behs for e in b["steps"] if e["a"] == "Commit" and e["tx"]["tree"].get("dk"))
        generic_replay(rep, "mtree-replay", behs, {"seed": SEED + j, "variant": var}, "c10_%d" % j, "mtree-replay")
    # wide sharing (ShapesFan / ScriptFan): a tree of 3 x 255 leaves, every leaf referenced again by a second tree in ONE
    # transaction (765 reference counts change in one log record; the table has 65 536 chunks of 32 entries, so some
    # chunk takes two of the changes with probability 99 %), clean restart, then both trees dereferenced: counts and
    # storage compared at every restart
    fan = mt_scripted(rep, "ScriptFan", limit=2 if not thorough else 8, rc=False, fine=False, shapes="ShapesFan", maxids=800,
                             maxcommits=4, maxlocks=0, maxdefers=1, nt=2, nv=1, pipes=())
    if not fan or not any(len(e["tx"]["tree"].get("incs", [])) >= 700 for b in fan for e in b["steps"] if e["a"] == "Commit"):
        raise ToolError("no scripted behaviour with a transaction that changes 700 reference counts: vacuous")
    rep.extra["wide_sharing_behaviours"] = len(fan)
    for var in ["", "direct"] + (["rc"] if thorough else []):
        generic_replay(rep, "mtree-replay", fan, {"seed": SEED + 33, "variant": var}, "c10fan%s" % var[:1], "mtree-replay")
    if rep.extra.get("insert_and_dereference_transactions", 0) < 20:
        raise ToolError("fewer than 20 transactions that insert and dereference in the generated tree behaviours: vacuous")
    # implementation -> specification
    for j, var in enumerate(["", "rc", "direct", "ao", "big"] + (["rc,direct", "", "rc"] if thorough else [])):
        mt_record_and_validate(rep, var, 3000 if thorough else 400, SEED * 41 + j, crash=2, nt=6 if thorough else 5,
                               maxids=2500 if thorough else 300, label="c10t%d" % j)
    return rep.finish()


@check("C11")
def c11(tier):
    rep = Report("C11", tier)
    rep.rule = ("MultiTree.tla with reader locks (Lock/Unlock with the root snapshot taken under the lock), the log worker's "
                "deferral check and its plan as SEPARATE steps, used_trees, to_dereference counts and re-queuing under a fresh "
                "id with the overlay re-tagged: ReaderStable (a locked reader keeps seeing its root and all its nodes), "
                "NoCorrupt / IdealVisible (trees committed under the lock that reuse its nodes stay whole), XVisible and "
                "FinalState (reads and final state equal commit order) model-checked over all interleavings; necessity configs "
                "drop the deferral, the used_trees marking and the write lock held from check to plan (the defect fixed in "
                "6cad621, F18).  Generated fine-grained behaviours are replayed with reader THREADS holding "
                "get_tree(..).read() across steps and the log worker's process_commits on its own thread held at BeginRecord "
                "by the hook sink; the hook events (Pop, Defer old->new id, BeginRecord, CommitLin) must match the "
                "specification's step; the counterexample schedule of F18 is forced on the real code.  The known deferral "
                "reorder (F3) is recognised by the model's conflict flag (a deferred commit moved behind a commit writing the "
                "same key); non-trivial = behaviour with a deferral or a tree reusing nodes")
    rep.assumptions = ["a key is not inserted again while a reader holds the old tree under that key",
                       "a reader that finds the tree's write lock held waits (not modelled as a step)"]
    vcore.build_harness()
    thorough = tier == "thorough"
    for label, kw in [("plain", dict()), ("rc_roots", dict(rc=True))]:
        run_model(rep, mt_cfg(fine=True, shapes="ShapesSmall" if thorough else "ShapesTiny", maxids=5 if thorough else 4,
                              maxcommits=5 if thorough else 4, maxlocks=2, maxdefers=2, nt=2, nv=1, **kw),
                  "MC_MultiTree_fine_%s" % label, module="MCMultiTree.tla", timeout=3400)
    for mut, fix in [(("no_defer",), ("F18", "F20")), (("no_used",), ("F18", "F20")), ((), ("F20",)), ((), ("F18",))]:
        name = "_".join(mut) or ("no_F18_repair" if "F18" not in fix else "no_F20_repair")
        r = vcore.tlc_check("MCMultiTree.tla", write_cfg(mt_cfg(fine=True, shapes="ShapesTiny", maxids=4, maxcommits=4,
                                                                  maxlocks=1, mut=mut, fix=fix)), timeout=1800)
        rep.add_model(r, "MC_MultiTree_noguard_%s" % name)
        if r["ok"]:
            raise ToolError("MultiTree.tla without %s passes: the model cannot justify rejecting behaviours on it" % name)
        log("[tlc] necessity %s: %s after %d states" % (name, r["violated"], r["distinct"]))
    # the known deferral reorder at model level: commit order is NOT kept when a deferred commit conflicts
    r = vcore.tlc_check("MCMultiTree.tla", write_cfg(mt_cfg(fine=False, shapes="ShapesTiny", maxids=3, maxcommits=3, maxlocks=1,
                                                              invariants=("TypeOK", "FinalStateStrict"))), timeout=1200)
    rep.add_model(r, "MC_MultiTree_commit_order_strict")
    if not r["ok"]:
        rep.violation("deferral reorder: state differs from applying the transactions in commit order (model: %s violated "
                      "with the whole commit re-queued behind a later commit writing the same key)" % r["violated"],
                      {"kind": "model", "cfg": "MC_MultiTree_commit_order_strict", "tlc_tail": r["out"][-5000:]})
    for var in ["", "rc"] + (["direct", "rc,big"] if thorough else []):
        mt_scenario(rep, "F18", var)
        mt_scenario(rep, "F20", var)
    variants = ["", "rc", "direct,pads"] + (["big", "rc,direct,pads", "direct,big"] if thorough else [])
    num = 100 if thorough else 12
    for j, var in enumerate(variants):
        vs = var.split(",")
        behs = mt_generate(rep, num, 34 if thorough else 30, SEED * 19 + j, rc="rc" in vs, fine=True, shapes="ShapesWide",
                           maxids=14, maxcommits=10, maxlocks=5, maxdefers=4, nt=3, nv=2)
        generic_replay(rep, "mtree-replay", behs, {"seed": SEED + 40 + j, "variant": var}, "c11_%d" % j, "mtree-replay")
        behs = mt_generate(rep, max(4, num // 2), 30, SEED * 23 + j, rc="rc" in vs, fine=False, shapes="ShapesWide",
                           maxids=14, maxcommits=10, maxlocks=5, maxdefers=4, nt=3, nv=2)
        generic_replay(rep, "mtree-replay", behs, {"seed": SEED + 60 + j, "variant": var}, "c11c_%d" % j, "mtree-replay")
    # situations that need ten specific steps in a row are enumerated by TLC from a script (MCMultiTree.tla ScriptSpec):
    # two dereferences of a counted tree queued, one processed, then an insertion under the reader lock that links
    # its nodes - the remaining dereference must still be deferred
    sb = mt_scripted(rep, "ScriptTwoDerefs", limit=60 if thorough else 20, rc=True, fine=False, shapes="ShapesSmall", maxids=8,
                     maxcommits=6, maxlocks=2, maxdefers=3, nt=2, nv=1)
    sb = [b for b in sb if not any(o.get("conflict") for o in b["obs"])]
    rep.extra["scripted_behaviours"] = len(sb)
    generic_replay(rep, "mtree-replay", sb, {"seed": SEED + 70, "variant": "rc"}, "c11s", "mtree-replay")
    # transactions that insert a tree AND dereference another one (insert the new state, prune an old one; Swap): the
    # design with them (all interleavings), then scripted behaviours in which such a transaction is postponed behind a
    # later commit while a reader holds the tree it dereferences - the tree it inserted must stay readable with all its
    # new nodes under the fresh id, and the dereference completes after the unlock
    run_model(rep, mt_cfg(fine=True, shapes="ShapesTiny", maxids=4, maxcommits=4 if thorough else 3, maxlocks=1, maxdefers=2, nt=2, nv=1,
                          swap=True), "MC_MultiTree_fine_swap", module="MCMultiTree.tla", timeout=3400)
    nsw = 0
    for j, (script, nt) in enumerate([("ScriptSwapDefer", 2), ("ScriptSwapDefer2", 3)]):
        sb = mt_scripted(rep, script, limit=60 if thorough else 24, rc=False, fine=False, shapes="ShapesSmall", maxids=8,
                         maxcommits=6, maxlocks=2, maxdefers=3, nt=nt, nv=1, swap=True)
        sb = [b for b in sb if not any(o.get("conflict") for o in b["obs"])]
        nsw += sum(1 for b in sb if any(e["a"] == "Commit" and e["tx"]["tree"].get("dk") and e["tx"]["tree"].get("new") for e in b["steps"]))
        for var in (["", "direct"] if thorough or j == 0 else [""]):
            generic_replay(rep, "mtree-replay", sb, {"seed": SEED + 80 + j, "variant": var}, "c11sw%d%s" % (j, var[:1]), "mtree-replay")
    rep.extra["postponed_insert_and_dereference_transactions_with_new_nodes"] = nsw
    if nsw < 5:
        raise ToolError("scripted Swap behaviours hold %d postponed transactions that insert new nodes: vacuous" % nsw)
    # implementation -> specification (random driver with reader threads; deferrals come from the hook events)
    tot_defers = 0
    for j, var in enumerate(["", "rc"] + (["direct", "", "rc", "big"] if thorough else [])):
        _, summ = mt_record_and_validate(rep, var, 3000 if thorough else 500, SEED * 43 + j, crash=1, nt=6 if thorough else 5,
                                         maxids=2500 if thorough else 300, label="c11t%d" % j)
        tot_defers += summ.get("defers", 0)
    if tot_defers == 0:
        raise ToolError("no deferral in the recorded tree histories: vacuous")
    # the real worker threads with a writer, a pruner and two reader threads
    for j in range(10 if thorough else 4):
        mt_live_and_validate(rep, "", 120 if thorough else 40, SEED * 47 + j, label="c11l%d" % j)
    return rep.finish()
