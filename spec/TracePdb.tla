------------------------------ MODULE TracePdb ------------------------------
(***************************************************************************)
(* Implementation -> specification: TLC checks that a trace recorded from  *)
(* the real parity-db (hook events emitted inside the critical sections +  *)
(* client events of the harness, totally ordered by a counter taken under  *)
(* the protecting lock) is a behaviour of Pdb with Fine = TRUE, and        *)
(* evaluates Pdb's invariants in every state of it.                        *)
(*                                                                         *)
(* Reads of concurrent clients are checked with interval semantics: the    *)
(* value returned must have been the model's answer in some state between  *)
(* the call and the return (exactly the statement of C05).                 *)
(*                                                                         *)
(* A recovery must expose the state after a prefix of the accepted         *)
(* transactions that contains every durable one (C02/C03); nothing tighter *)
(* is demanded.                                                            *)
(***************************************************************************)
EXTENDS Pdb, Json, IOUtils, TLCExt, Integers

Rec == ndJsonDeserialize(IOEnv.TRACE)

VARIABLES
    l,      \* next line of the trace
    pend,   \* reads in flight: [tid -> [loc, vals]] (vals = answers seen since the call)
    closed, \* the handle is closed (between Closed and Reopened)
    sUnsynced, \* <<log file, rid>>: records appended and not yet fdatasync'ed (syscall events)
    sDirty,    \* table files stored to since their last msync
    sNeed      \* <<log file, table file>>: msync of the table needed before the log may go

tvars == <<vars, l, pend, closed, sUnsynced, sDirty, sNeed>>

Ev == Rec[l]
IsEvent(e) == l <= Len(Rec) /\ Rec[l].e = e
Arg(i) == Rec[l].a[i]

NoPend == [t \in {} |-> 0]

\* every step moves the cursor and lets the reads in flight see the new state
GetNext(x) == IF covl'[x].cid # 0 THEN covl'[x].v
              ELSE IF lovl'[x].rid # 0 THEN Vis(lovl'[x].e) ELSE Vis(tabs'[x])
(***************************************************************************)
(* C12 on the observed file operations (interposed fdatasync / fsync /     *)
(* msync / ftruncate / unlink joined with the hook events):                *)
(*  - no table byte is modified on behalf of a record before the log bytes *)
(*    of that record were synced;                                          *)
(*  - no log file is truncated or deleted before every table written on    *)
(*    behalf of its records was msync'ed after those writes.               *)
(***************************************************************************)
LogName(id) == "log" \o ToString(id)

SysOK ==
    LET e == Rec[l] IN
    /\ (SyncWal /\ e.e = "EnactBegin" /\ e.a[2] = 0) => \A p \in sUnsynced : p[2] # e.a[1]
    /\ (SyncData /\ e.e = "LogTruncate") => \A p \in sNeed : p[1] # LogName(e.a[1])
    /\ (SyncData /\ e.e = "Sys" /\ e.call \in {"ftruncate0", "unlink"} /\ e.log) => \A p \in sNeed : p[1] # e.f
    \* recovery: a log file found at open may hold records that were written but never synced; it is synced by THIS
    \* process before its records are replayed (marker <<file, 0>>; the model-level guard is the necessity config
    \* replay_unsynced of Pdb.tla)
    /\ (SyncWal /\ e.e = "ReplayFile") => <<LogName(e.a[1]), 0>> \in sUnsynced

SysUpdate ==
    LET e == Rec[l] IN
    CASE e.e = "EndRecord" ->
            /\ sUnsynced' = sUnsynced \cup {<<LogName(e.a[2]), e.a[1]>>}
            /\ UNCHANGED <<sDirty, sNeed>>
      [] e.e = "Sys" /\ e.call \in {"fdatasync", "fsync"} /\ e.ret = 0 ->
            /\ sUnsynced' = {p \in sUnsynced : p[1] # e.f} \cup (IF e.log THEN {<<e.f, 0>>} ELSE {})
            /\ UNCHANGED <<sDirty, sNeed>>
      \* (the process that synced is gone: its markers go; nothing is unsynced at a clean close)
      [] e.e = "Closed" ->
            /\ sUnsynced' = {}
            /\ UNCHANGED <<sDirty, sNeed>>
      [] e.e = "Sys" /\ e.call = "msync" /\ e.ret = 0 ->
            /\ sDirty' = sDirty \ {e.f}
            /\ sNeed' = {p \in sNeed : p[2] # e.f}
            /\ UNCHANGED sUnsynced
      \* a table / index file that was deleted (old index generation dropped) has nothing left to sync
      [] e.e = "Sys" /\ e.call = "unlink" /\ ~e.log /\ e.ret = 0 ->
            /\ sDirty' = sDirty \ {e.f}
            /\ sNeed' = {p \in sNeed : p[2] # e.f}
            /\ UNCHANGED sUnsynced
      [] e.e = "TabWrite" ->
            /\ sDirty' = sDirty \cup {e.f}
            /\ UNCHANGED <<sUnsynced, sNeed>>
      [] e.e = "LogEof" ->
            /\ sNeed' = sNeed \cup {<<LogName(e.a[1]), tf>> : tf \in sDirty}
            /\ UNCHANGED <<sUnsynced, sDirty>>
      [] e.e \in {"Crash", "Reopened", "Recovered"} ->
            /\ sUnsynced' = {} /\ sDirty' = (IF e.e = "Crash" THEN {} ELSE sDirty)
            /\ sNeed' = (IF e.e = "Crash" THEN {} ELSE sNeed)
      [] OTHER -> UNCHANGED <<sUnsynced, sDirty, sNeed>>

Advance ==
    /\ l' = l + 1
    /\ SysOK /\ SysUpdate
    /\ pend' = [t \in DOMAIN pend |->
                  [pend[t] EXCEPT !.vals = @ \cup {GetNext(pend[t].loc)}]]

Stutter == UNCHANGED vars

TraceInit == Init /\ l = 1 /\ pend = NoPend /\ closed = FALSE
             /\ sUnsynced = {} /\ sDirty = {} /\ sNeed = {}

----------------------------------------------------------------------------
(* client events *)

\* hook CommitLin inside commit_raw (queue mutex + covl write lock held), joined with the
\* transaction the calling thread is committing
TCommit ==
    /\ IsEvent("Commit") /\ ~closed
    /\ Commit(Ev.tx)
    /\ nextCid' = Ev.cid
    /\ Advance /\ UNCHANGED closed

\* a commit call that returned an error: nothing may change
TReject ==
    /\ IsEvent("Reject") /\ ~closed
    /\ (mode = "open") => ~ValidTx(Ev.tx)
    /\ Stutter /\ Advance /\ UNCHANGED closed

\* a valid transaction must be accepted while the handle is healthy
TBadReject == IsEvent("Reject") /\ mode = "open" /\ ValidTx(Ev.tx) /\ FALSE

\* sequential runs: the whole projection after a call
ObsOK(o) ==
    /\ \A c \in Cols : Len(o[c]) = NKeys   \* a key nobody wrote must stay absent
    /\ \A c \in Cols : \A k \in Keys :
          IF IsRc(c)
          THEN LET e == Logical[<<c, k>>] IN
               /\ Present(e) => o[c][k] = e.v
               /\ (queue = <<>> /\ LwIdle /\ mode = "open") => ((o[c][k] # 0) <=> Present(e))
               /\ o[c][k] \in {0, 1}       \* never a foreign value
          ELSE o[c][k] = Get(<<c, k>>)

TObs ==
    /\ IsEvent("Obs") /\ ~closed
    /\ ObsOK(Ev.obs)
    /\ Stutter /\ Advance /\ UNCHANGED closed

\* drained rc column: value iteration reports exactly the live values with their counts
TCounts ==
    /\ IsEvent("Counts") /\ ~closed
    /\ (queue = <<>> /\ LwIdle /\ logs = <<>>) =>
          \A k \in Keys : Ev.counts[k] = Logical[<<Ev.c, k>>].rc
    /\ Stutter /\ Advance /\ UNCHANGED closed

TGetCall ==
    /\ IsEvent("GetCall")
    /\ pend' = [t \in DOMAIN pend \cup {Ev.t} |->
                  IF t = Ev.t THEN [loc |-> <<Ev.c, Ev.k>>, vals |-> {Get(<<Ev.c, Ev.k>>)}]
                  ELSE pend[t]]
    /\ l' = l + 1
    /\ Stutter /\ UNCHANGED <<closed, sUnsynced, sDirty, sNeed>>

TGetRet ==
    /\ IsEvent("GetRet")
    /\ Ev.t \in DOMAIN pend
    /\ Ev.v \in pend[Ev.t].vals
    /\ pend' = [t \in DOMAIN pend \ {Ev.t} |-> pend[t]]
    /\ l' = l + 1
    /\ Stutter /\ UNCHANGED <<closed, sUnsynced, sDirty, sNeed>>

----------------------------------------------------------------------------
(* Structural soundness (C14 / C06 release / C09): the raw on-disk structure of a column, dumped by
   the harness while the model says the pipeline is drained, must describe exactly the logical
   content: free list well formed, every slot below the fill mark free or part of exactly one live
   value, every live value indexed, as many values as live keys; btree sorted, uniform depth, no
   unreachable slot. *)

RECURSIVE FreeWalk(_, _, _)
FreeWalk(sl, at, seen) ==
    IF at = 0 THEN seen
    ELSE IF at \notin 1..Len(sl) \/ at \in seen THEN seen \cup {-1}
    ELSE IF sl[at].t # "free" THEN seen \cup {-1}
    ELSE FreeWalk(sl, sl[at].next, seen \cup {at})

FreeOK(tb) ==
    LET w == FreeWalk(tb.slots, tb.free_head, {}) IN
    /\ -1 \notin w
    /\ w = {i \in 1..Len(tb.slots) : tb.slots[i].t = "free"}
    /\ Len(tb.slots) = tb.filled - 1 \/ (tb.filled = 0 /\ Len(tb.slots) = 0)
    /\ \A i \in 1..Len(tb.slots) : tb.slots[i].t # "bad"

\* slots of the chain that starts at multipart head h (the set contains -1 if it is malformed)
RECURSIVE ChainWalk(_, _, _)
ChainWalk(sl, at, seen) ==
    IF at \notin 1..Len(sl) \/ at \in seen THEN seen \cup {-1}
    ELSE IF sl[at].t = "sized" THEN seen \cup {at}
    ELSE IF sl[at].t = "mpart" THEN ChainWalk(sl, sl[at].next, seen \cup {at})
    ELSE seen \cup {-1}
ChainOf(sl, h) == ChainWalk(sl, sl[h].next, {h})

MHeads(tb) == {i \in 1..Len(tb.slots) : tb.slots[i].t = "mhead"}
ChainSlots(tb) == UNION {ChainOf(tb.slots, h) : h \in MHeads(tb)}
RECURSIVE SumCard(_, _)
SumCard(tb, S) == IF S = {} THEN 0 ELSE LET h == CHOOSE x \in S : TRUE IN
                    Cardinality(ChainOf(tb.slots, h)) + SumCard(tb, S \ {h})
ChainsOK(tb) ==
    tb.multipart =>
      /\ -1 \notin ChainSlots(tb)
      /\ SumCard(tb, MHeads(tb)) = Cardinality(ChainSlots(tb))           \* no slot in two chains
      /\ \A i \in 1..Len(tb.slots) : tb.slots[i].t = "mpart" => i \in ChainSlots(tb)

\* value heads of a table: complete entries
Heads(tb) ==
    IF tb.multipart
    THEN MHeads(tb) \cup {i \in 1..Len(tb.slots) : tb.slots[i].t = "sized" /\ i \notin ChainSlots(tb)}
    ELSE {i \in 1..Len(tb.slots) : tb.slots[i].t = "head"}

NumHeads(d) == LET RECURSIVE S(_)
                   S(i) == IF i > Len(d.tables) THEN 0 ELSE Cardinality(Heads(d.tables[i])) + S(i + 1)
               IN S(1)
LiveKeys(c) == {k \in Keys : Present(logical[<<c, k>>])}

HashDumpOK(d) ==
    /\ \A i \in 1..Len(d.tables) : FreeOK(d.tables[i]) /\ ChainsOK(d.tables[i])
    \* every live value is reachable through some index generation
    /\ \A i \in 1..Len(d.tables) : \A h \in Heads(d.tables[i]) :
           \E j \in 1..Len(d.index) : d.index[j].tier = d.tables[i].tier /\ d.index[j].off = h
    \* exactly one stored value per live key (nothing leaked, nothing stored twice)
    /\ NumHeads(d) = Cardinality(LiveKeys(d.c)) + d.ballast

RECURSIVE AscendingFrom(_, _)
AscendingFrom(s, i) == IF i >= Len(s) THEN TRUE ELSE (s[i] < s[i + 1] /\ AscendingFrom(s, i + 1))
BtreeDumpOK(d) ==
    /\ \A i \in 1..Len(d.tables) : FreeOK(d.tables[i]) /\ ChainsOK(d.tables[i])
    /\ d.walk_ok /\ d.keys_sorted
    \* the tree holds exactly the live keys, in order
    /\ {d.keys[i] : i \in 1..Len(d.keys)} = LiveKeys(d.c) /\ Len(d.keys) = Cardinality(LiveKeys(d.c))
    /\ AscendingFrom(d.keys, 1)
    \* every leaf at the recorded depth
    /\ \A i \in 1..Len(d.leaf_depths) : d.leaf_depths[i] = d.depth
    \* no slot reached twice, and every used slot (but the header at tier 0, slot 1) is reached
    /\ Cardinality({d.reach[i] : i \in 1..Len(d.reach)}) = Len(d.reach)
    /\ {d.reach[i] : i \in 1..Len(d.reach)} =
         UNION { { <<d.tables[i].tier, s>> : s \in {x \in 1..Len(d.tables[i].slots) : d.tables[i].slots[x].t # "free"} }
                 : i \in 1..Len(d.tables) } \ {<<0, 1>>}

\* steady insert-all / remove-all rounds: the fill marks of the value tables (and the set of
\* existing tables) after every later round are those after the second round
SteadyOK(m) == \A r \in 3..Len(m) : Len(m[r]) = Len(m[2]) /\ \A i \in 1..Len(m[r]) : m[r][i] <= m[2][i]
TSteady == IsEvent("Steady") /\ ~closed /\ SteadyOK(Ev.marks) /\ Stutter /\ Advance /\ UNCHANGED closed

ModelDrained == queue = <<>> /\ LwIdle /\ CwIdle /\ mode = "open" /\ \A i \in 1..Len(logs) : logs[i].st = "cq"

TDump ==
    /\ IsEvent("Dump") /\ ~closed
    \* (compared with TRUE so that TLC evaluates the predicate as a value: as an action conjunct every
    \* witness of its existential quantifiers would become a successor state)
    /\ (ModelDrained => (IF Ev.kind = "btree" THEN BtreeDumpOK(Ev) ELSE HashDumpOK(Ev))) = TRUE
    /\ Stutter /\ Advance /\ UNCHANGED closed

----------------------------------------------------------------------------
(* btree iterator (C04): every returned (key rank, value id) must be the model's answer *)

TCurOpen  == IsEvent("CurOpen") /\ ~closed /\ IsBtree(Ev.c) /\ ~cur.open
             /\ cur' = [open |-> TRUE, c |-> Ev.c, t |-> "start", k |-> 0]
             /\ CurOthers /\ UNCHANGED <<trace, cov>> /\ Advance /\ UNCHANGED closed
TCurClose == IsEvent("CurClose") /\ CurClose /\ Advance /\ UNCHANGED closed
TCurSeek  == IsEvent("CurSeek") /\ CurSeek(Ev.k) /\ Advance /\ UNCHANGED closed
TCurFirst == IsEvent("CurFirst") /\ CurFirst /\ Advance /\ UNCHANGED closed
TCurLast  == IsEvent("CurLast") /\ CurLast /\ Advance /\ UNCHANGED closed
TCurNext  == IsEvent("CurNext") /\ cur.open /\ Ev.res = NextRes /\ CurNext /\ Advance /\ UNCHANGED closed
TCurPrev  == IsEvent("CurPrev") /\ cur.open /\ Ev.res = PrevRes /\ CurPrev /\ Advance /\ UNCHANGED closed

----------------------------------------------------------------------------
(* log worker *)

TPop ==
    /\ IsEvent("Pop")
    /\ queue # <<>> /\ Head(queue).cid = Arg(1)
    /\ PopAndPlan
    /\ Advance /\ UNCHANGED closed

TBeginRecord ==
    /\ IsEvent("BeginRecord")
    /\ lw.pc = "planned" /\ lw.rec.rid = Arg(1) /\ lw.cid = Arg(2)
    /\ Stutter /\ Advance /\ UNCHANGED closed

\* records that originate in the database (reindex batches) carry no logical change
TAuxBegin ==
    /\ (IsEvent("ReindexRecord") \/ IsEvent("RcReindexRecord"))
    /\ LwIdle /\ Arg(1) = nextRid
    /\ Stutter /\ Advance /\ UNCHANGED closed

TEndRecord ==
    /\ IsEvent("EndRecord")
    /\ \/ (lw.pc = "planned" /\ lw.rec.rid = Arg(1) /\ EndRecord)
       \/ (LwIdle /\ Arg(1) = nextRid /\ mode = "open"
           /\ nextRid' = nextRid + 1
           /\ logs' = AppendRec([rid |-> nextRid, h |-> 0, cid |-> 0, w |-> <<>>]) /\ AppendPool
           /\ UNCHANGED <<hist, logical, calls, queue, nextCid, covl, lw, rpos, lovl, cw, lastEnacted,
                          tabs, dtabs, flushedCq, applied, durable, mode, rcv, ncrash, naux, lastRec, rdr, cur, trace, cov>>)
    /\ Advance /\ UNCHANGED closed

TCleanCovl ==
    /\ IsEvent("CleanCovl")
    /\ lw.pc = "ended" /\ lw.cid = Arg(1)
    /\ CleanCovl
    /\ Advance /\ UNCHANGED closed

----------------------------------------------------------------------------
(* flush worker *)

TLogSync == IsEvent("LogSync") /\ HasApp /\ Stutter /\ Advance /\ UNCHANGED closed

TLogQueued ==
    /\ IsEvent("LogQueued")
    /\ FlushLog
    /\ Advance /\ UNCHANGED closed

----------------------------------------------------------------------------
(* commit worker *)

TEnactBegin ==
    /\ IsEvent("EnactBegin") /\ mode = "open" /\ ~closed
    /\ EnactBegin
    /\ cw'.rec.rid = Arg(1)
    /\ Advance /\ UNCHANGED closed

\* physical table writes: the logical effect is accounted for at EnactEnd
TTabWrite ==
    /\ IsEvent("TabWrite") /\ ~closed
    /\ (mode = "open") => cw.pc = "writing"
    /\ Stutter /\ Advance /\ UNCHANGED closed

TValidated == IsEvent("Validated") /\ ~closed /\ Stutter /\ Advance /\ UNCHANGED closed

TEnactEnd ==
    /\ IsEvent("EnactEnd") /\ mode = "open" /\ ~closed
    /\ cw.pc = "writing" /\ cw.rec.rid = Arg(1)
    /\ tabs' = TabsApply(tabs, cw.rec)
    /\ lastEnacted' = cw.rec.rid
    /\ applied' = Max(applied, cw.rec.h)
    /\ cw' = [cw EXCEPT !.pc = "written", !.todo = {}]
    /\ UNCHANGED <<hist, logical, calls, queue, nextCid, covl, lw, nextRid, logs, pool, nextLogId, rpos, lovl,
                   dtabs, flushedCq, durable, mode, rcv, ncrash, naux, lastRec, rdr, cur, trace, cov>>
    /\ Advance /\ UNCHANGED closed

TEndRead ==
    /\ IsEvent("EndRead") /\ mode = "open" /\ ~closed
    /\ cw.pc = "written" /\ cw.rec.rid = Arg(1)
    /\ EndRead
    /\ Advance /\ UNCHANGED closed

TLogEof ==
    /\ IsEvent("LogEof") /\ mode = "open" /\ ~closed
    /\ LogEof
    /\ Advance /\ UNCHANGED closed

----------------------------------------------------------------------------
(* cleanup worker *)

TTablesFlushed ==
    /\ IsEvent("TablesFlushed") /\ ~closed
    /\ IF mode = "open" /\ NumCq > flushedCq THEN FlushTables
       ELSE IF mode = "open"
       THEN dtabs' = tabs /\ UNCHANGED <<hist, logical, calls, queue, nextCid, covl, lw, nextRid, logs, pool, nextLogId, rpos, lovl, cw,
                   lastEnacted, tabs, flushedCq, applied, durable, mode, rcv, ncrash, naux, lastRec, rdr, cur, trace, cov>>
       ELSE Stutter
    /\ Advance /\ UNCHANGED closed

\* a log may be truncated only when every record in it was enacted and the tables were
\* flushed afterwards (C12): TruncateLog's guard
TLogTruncate ==
    /\ IsEvent("LogTruncate") /\ ~closed
    /\ IF mode = "open" THEN TruncateLog ELSE Stutter
    /\ Advance /\ UNCHANGED closed

TLogDelete == IsEvent("LogDelete") /\ ~closed /\ Stutter /\ Advance /\ UNCHANGED closed

----------------------------------------------------------------------------
(* close / reopen, crash / recovery *)

\* Db dropped (C03): every accepted commit must have been written to a log file that is
\* synced (kill_logs drains the queue and flushes); files it did not get to enact stay on
\* disk and are replayed by the next open, which the statement allows.
TClosed ==
    /\ IsEvent("Closed") /\ ~closed /\ mode = "open"
    /\ queue = <<>> /\ LwIdle /\ CwIdle /\ ~HasApp
    /\ closed' = TRUE /\ ~cur.open
    /\ rcv' = [rcv EXCEPT !.any = FALSE]
    /\ UNCHANGED <<hist, logical, calls, queue, nextCid, covl, lw, nextRid, logs, pool, nextLogId, rpos, lovl, cw, lastEnacted,
                   tabs, dtabs, flushedCq, applied, durable, mode, ncrash, naux, lastRec, rdr, cur, trace, cov>>
    /\ Advance

\* replay inside Db::open after a clean close
TClosedReplay ==
    /\ closed /\ mode = "open" /\ l <= Len(Rec)
    /\ Rec[l].e \in {"EnactBegin", "EnactEnd", "EndRead", "ReplayFile", "LogEof", "TabWrite", "Validated",
                     "TablesFlushed", "LogTruncate", "LogDelete"}
    /\ IF Rec[l].e = "EnactEnd"
       THEN /\ lastEnacted' = Arg(1) /\ rcv' = [rcv EXCEPT !.any = TRUE]
            /\ UNCHANGED <<hist, logical, calls, queue, nextCid, covl, lw, nextRid, logs, pool, nextLogId, rpos, lovl, cw, tabs, dtabs,
                           flushedCq, applied, durable, mode, ncrash, naux, lastRec, rdr, cur, trace, cov>>
       ELSE Stutter
    /\ Advance /\ UNCHANGED closed

TReopened ==
    /\ IsEvent("Reopened") /\ closed
    /\ closed' = FALSE
    /\ LET t == TabsApplyAll(tabs, UnenactedRecs, 1) IN tabs' = t /\ dtabs' = t
    /\ logs' = <<>> /\ rpos' = 0 /\ flushedCq' = 0 /\ pool' = {} /\ nextLogId' = 0
    /\ lovl' = [x \in Loc |-> NoLovl] /\ covl' = [x \in Loc |-> NoCovl]
    /\ nextRid' = IF rcv.any THEN lastEnacted + 1 ELSE 1
    /\ lastEnacted' = IF rcv.any THEN lastEnacted ELSE 1
    /\ nextCid' = 0
    /\ durable' = Len(hist) /\ applied' = Len(hist)
    /\ UNCHANGED <<hist, logical, calls, queue, lw, cw, mode, rcv, ncrash, naux, lastRec, rdr, cur, trace, cov>>
    /\ Advance

\* the process died here (the harness took the image at this point of the event stream)
TCrash ==
    /\ IsEvent("Crash") /\ mode \in {"open", "err"}
    /\ Volatile
    /\ mode' = "crashed"
    /\ flushedCq' = 0 /\ rpos' = 0
    /\ rcv' = [f |-> 0, r |-> 0, any |-> FALSE, pre |-> 0, dmg |-> "none"]
    /\ closed' = FALSE
    /\ UNCHANGED <<hist, logical, calls, nextRid, logs, pool, nextLogId, lastEnacted, tabs, dtabs, applied, durable, ncrash, naux, lastRec, rdr, cur, trace, cov>>
    /\ Advance

\* events of the replay inside Db::open of the image
TReplayEnact ==
    /\ IsEvent("EnactEnd") /\ mode = "crashed"
    /\ lastEnacted' = Arg(1)
    /\ rcv' = [rcv EXCEPT !.any = TRUE]
    /\ UNCHANGED <<hist, logical, calls, queue, nextCid, covl, lw, nextRid, logs, pool, nextLogId, rpos, lovl, cw, tabs, dtabs,
                   flushedCq, applied, durable, mode, ncrash, naux, lastRec, rdr, cur, trace, cov>>
    /\ Advance /\ UNCHANGED closed

TReplayOther ==
    /\ mode = "crashed"
    /\ IsEvent("EnactBegin") \/ IsEvent("EndRead") \/ IsEvent("ReplayFile") \/ IsEvent("LogEof")
    /\ Stutter /\ Advance /\ UNCHANGED closed

VisOf(s) == [c \in Cols |-> [k \in Keys |-> Vis(s[<<c, k>>])]]

\* C02 / C03: the recovered database shows the state after a prefix of the accepted
\* transactions, not shorter than what was durable.  `counts` (rc columns, by value
\* iteration) must agree too.
TRecovered ==
    /\ IsEvent("Recovered") /\ mode = "crashed"
    /\ LET Match(n) == LET s == StateAfter(hist, n) IN
                       /\ VisOf(s) = Ev.obs
                       /\ \A c \in DOMAIN Ev.counts :
                            (Ev.counts[c] # <<>>) => \A k \in Keys : Ev.counts[c][k] = s[<<c, k>>].rc
           N == {n \in durable..Len(hist) : Match(n)}
           \* one candidate per distinct recovered state (the longest prefix that yields it): states that
           \* the observation cannot tell apart (reference counts of a btree column) are all kept, later
           \* reads decide between them
           Cands == {n \in N : \A m \in N : m > n => StateAfter(hist, m) # StateAfter(hist, n)}
       IN /\ N # {}
          /\ \E n \in Cands : LET s == StateAfter(hist, n) IN
             /\ hist' = SubSeq(hist, 1, n)
             /\ logical' = s
             /\ tabs' = s /\ dtabs' = s
             /\ durable' = n /\ applied' = n
             /\ lastRec' = [n |-> n, lo |-> durable, ok |-> TRUE, pre |-> 0]
    /\ logs' = <<>> /\ pool' = {} /\ nextLogId' = 0
    /\ nextRid' = IF rcv.any THEN lastEnacted + 1 ELSE 1
    /\ lastEnacted' = IF rcv.any THEN lastEnacted ELSE 1
    /\ mode' = "open"
    /\ UNCHANGED <<calls, queue, nextCid, covl, lw, rpos, lovl, cw, flushedCq, rcv, ncrash, naux, rdr, cur, trace, cov>>
    /\ Advance /\ UNCHANGED closed

\* injected background error (store_err)
TStoreErr ==
    /\ IsEvent("StoreErr") /\ mode = "open"
    /\ mode' = "err"
    /\ UNCHANGED <<hist, logical, calls, queue, nextCid, covl, lw, nextRid, logs, pool, nextLogId, rpos, lovl, cw, lastEnacted,
                   tabs, dtabs, flushedCq, applied, durable, rcv, ncrash, naux, lastRec, rdr, cur, trace, cov>>
    /\ Advance /\ UNCHANGED closed

\* events without a counterpart in this module (worker protocol, locks)
Ignored == {"Locked", "Unlocking", "Shutdown", "ShutdownNotified", "StoreErrNotified", "WorkerLoopEnd",
            "WorkerExit", "CommitFullPark", "CommitFullWake", "LogThrottlePark", "LogThrottleWake",
            "EnactCleanupWait", "CommitErr", "Defer", "Note", "Sys"}
TIgnored ==
    /\ l <= Len(Rec) /\ Rec[l].e \in Ignored
    /\ Stutter /\ Advance /\ UNCHANGED closed

TraceNext ==
    \/ TCommit \/ TReject \/ TObs \/ TCounts \/ TGetCall \/ TGetRet
    \/ TDump \/ TSteady
    \/ TCurOpen \/ TCurClose \/ TCurSeek \/ TCurFirst \/ TCurLast \/ TCurNext \/ TCurPrev
    \/ TPop \/ TBeginRecord \/ TAuxBegin \/ TEndRecord \/ TCleanCovl
    \/ TLogSync \/ TLogQueued
    \/ TEnactBegin \/ TTabWrite \/ TValidated \/ TEnactEnd \/ TEndRead \/ TLogEof
    \/ TTablesFlushed \/ TLogTruncate \/ TLogDelete
    \/ TClosed \/ TClosedReplay \/ TReopened \/ TCrash \/ TReplayEnact \/ TReplayOther \/ TRecovered
    \/ TStoreErr \/ TIgnored

TraceSpec == TraceInit /\ [][TraceNext]_tvars

----------------------------------------------------------------------------
\* acceptance: the whole trace was consumed (diameter counts the initial state)
TraceAccepted ==
    LET d == TLCGet("stats").diameter IN
    /\ PrintT("TRACE-RESULT matched=" \o ToString(d - 1) \o " total=" \o ToString(Len(Rec)))
    /\ (d - 1 = Len(Rec) \/
          PrintT(<<"TRACE-FIRST-UNMATCHED", d, IF d <= Len(Rec) THEN Rec[d] ELSE "none">>))

TraceView == <<ViewNoTrace, l, pend, closed, sUnsynced, sDirty, sNeed>>
=============================================================================
