CONSTANTS
  Actors = {1, 2, 3}
  Child = {3}
  GenLen = 16
SPECIFICATION GenSpec
INVARIANTS EmitTrace AtMostOneLive
CHECK_DEADLOCK FALSE
