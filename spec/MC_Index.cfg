\* C09: 5 keys (two fully colliding pairs), pages of 2 entries, index grows 0 -> 2 levels
CONSTANTS
  NK = 5
  B = 2
  Pfx <- Pfx5
  P = 3
  MaxSlots = 4
  BatchPages = 1
  MaxOps = 7
  Mut = {}
SPECIFICATION Spec
CONSTRAINT NoOverflow
INVARIANTS Findable OneSlotPerKey GensOrdered Bound
CHECK_DEADLOCK FALSE
