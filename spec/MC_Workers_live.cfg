\* C15 liveness under weak fairness of every thread (no state constraint)
CONSTANTS
  NClients = 1
  NCommits = 2
  MaxQ = 0
  MaxL = 0
  MaxLogs = 0
  MinLog = 0
  Faults = FALSE
  Fix = {"S1", "S2", "S7"}
SPECIFICATION FairSpec
INVARIANTS TypeOK AllPersisted
PROPERTIES CommitReturns ShutdownTerminates AllLogged
