\* canonical trees (ascending / descending loads of n keys) x every single operation
CONSTANTS
  ORDER = 8
  NK = 400
  KeepHist = TRUE
  GrowLen = 0
  AscSizes = {9, 10, 13, 17, 18, 26, 40, 44, 45, 46, 49, 50, 54, 58, 62, 66, 69, 70, 71, 72, 73, 74, 78, 82, 90, 98, 110, 130, 150}
  Mut = {}
  BatchPct = 0
  GenLen = 0
SPECIFICATION AscSpec
INVARIANTS EmitAsc TreeOK ContentOK
CHECK_DEADLOCK FALSE
