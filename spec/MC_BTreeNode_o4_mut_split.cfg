\* necessity: children of a split-off inner node one slot too far - TreeOK / ContentOK must fail
\* 4 separators per node, 16 keys: splits of a full inner node at every child, borrowing and merging at both levels
CONSTANTS
  ORDER = 4
  NK = 18
  KeepHist = FALSE
  GrowLen = 0
  AscSizes = {}
  Mut = {"split_child_offset"}
  BatchPct = 0
  GenLen = 0
SPECIFICATION Spec
VIEW View
INVARIANTS TreeOK ContentOK MinFill
CHECK_DEADLOCK FALSE
