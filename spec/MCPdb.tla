------------------------------- MODULE MCPdb -------------------------------
(* Constant definitions for the TLC configs of Pdb (cfg files cannot write tuples). *)
EXTENDS Pdb, Json, TLCExt

CONSTANT GenLen   \* behaviours are printed when they reach this many states

Kind_h == <<"hash">>
Kind_p == <<"hashp">>
Kind_r == <<"rc">>
Kind_b == <<"btree">>
Kind_c == <<"btree_rc">>
Kind_hh == <<"hash", "hash">>
Kind_hp == <<"hash", "hashp">>
Kind_hr == <<"hash", "rc">>
Kind_hb == <<"hash", "btree">>
Kind_hc == <<"hash", "btree_rc">>
Kind_ph == <<"hashp", "hash">>
Kind_pp == <<"hashp", "hashp">>
Kind_pr == <<"hashp", "rc">>
Kind_pb == <<"hashp", "btree">>
Kind_pc == <<"hashp", "btree_rc">>
Kind_rh == <<"rc", "hash">>
Kind_rp == <<"rc", "hashp">>
Kind_rr == <<"rc", "rc">>
Kind_rb == <<"rc", "btree">>
Kind_rc == <<"rc", "btree_rc">>
Kind_bh == <<"btree", "hash">>
Kind_bp == <<"btree", "hashp">>
Kind_br == <<"btree", "rc">>
Kind_bb == <<"btree", "btree">>
Kind_bc == <<"btree", "btree_rc">>
Kind_ch == <<"btree_rc", "hash">>
Kind_cp == <<"btree_rc", "hashp">>
Kind_cr == <<"btree_rc", "rc">>
Kind_cb == <<"btree_rc", "btree">>
Kind_cc == <<"btree_rc", "btree_rc">>
Kind_hhh == <<"hash", "hash", "hash">>
Kind_hhp == <<"hash", "hash", "hashp">>
Kind_hhr == <<"hash", "hash", "rc">>
Kind_hhb == <<"hash", "hash", "btree">>
Kind_hhc == <<"hash", "hash", "btree_rc">>
Kind_hph == <<"hash", "hashp", "hash">>
Kind_hpp == <<"hash", "hashp", "hashp">>
Kind_hpr == <<"hash", "hashp", "rc">>
Kind_hpb == <<"hash", "hashp", "btree">>
Kind_hpc == <<"hash", "hashp", "btree_rc">>
Kind_hrh == <<"hash", "rc", "hash">>
Kind_hrp == <<"hash", "rc", "hashp">>
Kind_hrr == <<"hash", "rc", "rc">>
Kind_hrb == <<"hash", "rc", "btree">>
Kind_hrc == <<"hash", "rc", "btree_rc">>
Kind_hbh == <<"hash", "btree", "hash">>
Kind_hbp == <<"hash", "btree", "hashp">>
Kind_hbr == <<"hash", "btree", "rc">>
Kind_hbb == <<"hash", "btree", "btree">>
Kind_hbc == <<"hash", "btree", "btree_rc">>
Kind_hch == <<"hash", "btree_rc", "hash">>
Kind_hcp == <<"hash", "btree_rc", "hashp">>
Kind_hcr == <<"hash", "btree_rc", "rc">>
Kind_hcb == <<"hash", "btree_rc", "btree">>
Kind_hcc == <<"hash", "btree_rc", "btree_rc">>
Kind_phh == <<"hashp", "hash", "hash">>
Kind_php == <<"hashp", "hash", "hashp">>
Kind_phr == <<"hashp", "hash", "rc">>
Kind_phb == <<"hashp", "hash", "btree">>
Kind_phc == <<"hashp", "hash", "btree_rc">>
Kind_pph == <<"hashp", "hashp", "hash">>
Kind_ppp == <<"hashp", "hashp", "hashp">>
Kind_ppr == <<"hashp", "hashp", "rc">>
Kind_ppb == <<"hashp", "hashp", "btree">>
Kind_ppc == <<"hashp", "hashp", "btree_rc">>
Kind_prh == <<"hashp", "rc", "hash">>
Kind_prp == <<"hashp", "rc", "hashp">>
Kind_prr == <<"hashp", "rc", "rc">>
Kind_prb == <<"hashp", "rc", "btree">>
Kind_prc == <<"hashp", "rc", "btree_rc">>
Kind_pbh == <<"hashp", "btree", "hash">>
Kind_pbp == <<"hashp", "btree", "hashp">>
Kind_pbr == <<"hashp", "btree", "rc">>
Kind_pbb == <<"hashp", "btree", "btree">>
Kind_pbc == <<"hashp", "btree", "btree_rc">>
Kind_pch == <<"hashp", "btree_rc", "hash">>
Kind_pcp == <<"hashp", "btree_rc", "hashp">>
Kind_pcr == <<"hashp", "btree_rc", "rc">>
Kind_pcb == <<"hashp", "btree_rc", "btree">>
Kind_pcc == <<"hashp", "btree_rc", "btree_rc">>
Kind_rhh == <<"rc", "hash", "hash">>
Kind_rhp == <<"rc", "hash", "hashp">>
Kind_rhr == <<"rc", "hash", "rc">>
Kind_rhb == <<"rc", "hash", "btree">>
Kind_rhc == <<"rc", "hash", "btree_rc">>
Kind_rph == <<"rc", "hashp", "hash">>
Kind_rpp == <<"rc", "hashp", "hashp">>
Kind_rpr == <<"rc", "hashp", "rc">>
Kind_rpb == <<"rc", "hashp", "btree">>
Kind_rpc == <<"rc", "hashp", "btree_rc">>
Kind_rrh == <<"rc", "rc", "hash">>
Kind_rrp == <<"rc", "rc", "hashp">>
Kind_rrr == <<"rc", "rc", "rc">>
Kind_rrb == <<"rc", "rc", "btree">>
Kind_rrc == <<"rc", "rc", "btree_rc">>
Kind_rbh == <<"rc", "btree", "hash">>
Kind_rbp == <<"rc", "btree", "hashp">>
Kind_rbr == <<"rc", "btree", "rc">>
Kind_rbb == <<"rc", "btree", "btree">>
Kind_rbc == <<"rc", "btree", "btree_rc">>
Kind_rch == <<"rc", "btree_rc", "hash">>
Kind_rcp == <<"rc", "btree_rc", "hashp">>
Kind_rcr == <<"rc", "btree_rc", "rc">>
Kind_rcb == <<"rc", "btree_rc", "btree">>
Kind_rcc == <<"rc", "btree_rc", "btree_rc">>
Kind_bhh == <<"btree", "hash", "hash">>
Kind_bhp == <<"btree", "hash", "hashp">>
Kind_bhr == <<"btree", "hash", "rc">>
Kind_bhb == <<"btree", "hash", "btree">>
Kind_bhc == <<"btree", "hash", "btree_rc">>
Kind_bph == <<"btree", "hashp", "hash">>
Kind_bpp == <<"btree", "hashp", "hashp">>
Kind_bpr == <<"btree", "hashp", "rc">>
Kind_bpb == <<"btree", "hashp", "btree">>
Kind_bpc == <<"btree", "hashp", "btree_rc">>
Kind_brh == <<"btree", "rc", "hash">>
Kind_brp == <<"btree", "rc", "hashp">>
Kind_brr == <<"btree", "rc", "rc">>
Kind_brb == <<"btree", "rc", "btree">>
Kind_brc == <<"btree", "rc", "btree_rc">>
Kind_bbh == <<"btree", "btree", "hash">>
Kind_bbp == <<"btree", "btree", "hashp">>
Kind_bbr == <<"btree", "btree", "rc">>
Kind_bbb == <<"btree", "btree", "btree">>
Kind_bbc == <<"btree", "btree", "btree_rc">>
Kind_bch == <<"btree", "btree_rc", "hash">>
Kind_bcp == <<"btree", "btree_rc", "hashp">>
Kind_bcr == <<"btree", "btree_rc", "rc">>
Kind_bcb == <<"btree", "btree_rc", "btree">>
Kind_bcc == <<"btree", "btree_rc", "btree_rc">>
Kind_chh == <<"btree_rc", "hash", "hash">>
Kind_chp == <<"btree_rc", "hash", "hashp">>
Kind_chr == <<"btree_rc", "hash", "rc">>
Kind_chb == <<"btree_rc", "hash", "btree">>
Kind_chc == <<"btree_rc", "hash", "btree_rc">>
Kind_cph == <<"btree_rc", "hashp", "hash">>
Kind_cpp == <<"btree_rc", "hashp", "hashp">>
Kind_cpr == <<"btree_rc", "hashp", "rc">>
Kind_cpb == <<"btree_rc", "hashp", "btree">>
Kind_cpc == <<"btree_rc", "hashp", "btree_rc">>
Kind_crh == <<"btree_rc", "rc", "hash">>
Kind_crp == <<"btree_rc", "rc", "hashp">>
Kind_crr == <<"btree_rc", "rc", "rc">>
Kind_crb == <<"btree_rc", "rc", "btree">>
Kind_crc == <<"btree_rc", "rc", "btree_rc">>
Kind_cbh == <<"btree_rc", "btree", "hash">>
Kind_cbp == <<"btree_rc", "btree", "hashp">>
Kind_cbr == <<"btree_rc", "btree", "rc">>
Kind_cbb == <<"btree_rc", "btree", "btree">>
Kind_cbc == <<"btree_rc", "btree", "btree_rc">>
Kind_cch == <<"btree_rc", "btree_rc", "hash">>
Kind_ccp == <<"btree_rc", "btree_rc", "hashp">>
Kind_ccr == <<"btree_rc", "btree_rc", "rc">>
Kind_ccb == <<"btree_rc", "btree_rc", "btree">>
Kind_ccc == <<"btree_rc", "btree_rc", "btree_rc">>

(* Behaviour generation (spec -> implementation).  Arguments are drawn inside each
   disjunct so that simulation chooses among actions, not among transactions. *)
WfOps == {op \in Ops : WellFormedOp(op)}
\* (the dummy dependence on a state variable stops TLC from evaluating the draw once)
RandTx(x) == LET n == RandomElement({j \in 1..MaxOps : x >= 0})
             IN [i \in 1..n |-> RandomElement({op \in WfOps : x + i >= 0})]

\* W(p): enabled with probability p% (simulation picks uniformly among the enabled
\* disjuncts; the weights steer it towards deep pipelines: several log files at different
\* stages, recycled files, crashes and restarts in such states)
W(p) == RandomElement({j \in 1..100 : calls >= 0}) <= p
Deep == Len(logs) >= 2
GenNext ==
    \/ (LET tx == RandTx(calls) IN Commit(tx) \/ Reject(tx))
    \/ (W(IF Len(queue) >= 2 THEN 10 ELSE 50) /\ LET tx == RandTx(calls + 1) IN Commit(tx) \/ Reject(tx))
    \/ ProcessCommit \/ (W(60) /\ FlushLog) \/ (W(70) /\ EnactOne) \/ LogEof \/ (W(60) /\ Clean)
    \/ (W(IF Deep \/ queue # <<>> THEN 12 ELSE 3) /\ CloseOpen)
    \/ (W(IF IdInversion THEN 70 ELSE IF Deep THEN 25 ELSE 4) /\ Crash)
    \/ RecoverStart \/ RecoverRec \/ RecoverDone
    \/ (W(15) /\ \E t \in BOOLEAN : IoFailAppend(t))
    \/ (W(15) /\ LET n == NextToEnact IN n.r # 0 /\ IoFailEnact(RandomElement(SUBSET DOMAIN logs[n.f].recs[n.r].w)))
    \/ (W(IF NumCq >= 2 THEN 45 ELSE 6) /\ IoFailOther) \/ DropErr
    \/ (\E c \in Cols : CurOpen(c)) \/ (W(12) /\ CurClose)
    \/ CurSeek(RandomElement({k \in Keys : calls >= 0})) \/ CurFirst \/ CurLast
    \/ CurNext \/ CurPrev \/ CurNext \/ CurPrev
    \/ (Len(logs) > 0 /\ LET f == RandomElement({i \in 1..Len(logs) : calls >= 0})
                              k == RandomElement({i \in 0..Len(logs[f].recs) : calls >= 0})
                          IN \E t \in BOOLEAN : CorruptTruncate(f, k, t))
    \/ (Len(logs) > 0 /\ LET f == RandomElement({i \in 1..Len(logs) : calls >= 0})
                          IN Len(logs[f].recs) > 0 /\
                             CorruptRecord(f, RandomElement({i \in 1..Len(logs[f].recs) : calls >= 0})))
    \/ (Len(logs) > 0 /\ CorruptDelete(RandomElement({i \in 1..Len(logs) : calls >= 0})))
    \/ (Len(logs) > 1 /\ LET f == RandomElement({i \in 1..(Len(logs) - 1) : calls >= 0}) IN CorruptSwap(f, f + 1))
    \/ (Len(logs) > 1 /\ CorruptSwap(1, Len(logs)))

GenSpec == Init /\ [][GenNext]_vars

EmitTrace == TLCGet("level") < GenLen \/ PrintT("REPLAY " \o ToJson(trace))

(* Directed generation: breadth-first search (history hidden by the view, so one shortest behaviour per
   abstract state) prints every behaviour that has just completed a recovery after hitting a coverage tag. *)
DirView == <<ViewLogical, cov>>
DirBound == Len(trace) <= GenLen
DirEmit == ~(cov # {} /\ mode = "open" /\ Len(trace) > 0 /\ trace[Len(trace)].a \in {"Reopen", "CloseOpen"})
           \/ PrintT("REPLAY " \o ToJson(trace))
DirNext ==
    \/ (\E k \in Keys, v \in 1..NVals : Commit(<<[c |-> 1, k |-> k, t |-> "set", v |-> v]>>))
    \/ ProcessCommit \/ FlushLog \/ EnactOne \/ LogEof \/ Clean
    \/ (Len(logs) >= 3 /\ CloseOpen)
    \/ Crash \/ RecoverStart \/ RecoverRec \/ RecoverDone
    \/ IoFailOther \/ DropErr
DirSpec == Init /\ [][DirNext]_vars
=============================================================================
