\* C19: every page of 8 slots over 4 entry values x 4 keys x 8 start positions (2.1 M cases)
CONSTANTS
  N = 8
  W = 4
  Dom <- Dom4
  KeyDom <- Keys4
  SamplePct = 1
SPECIFICATION Spec
INVARIANTS NeverBefore NeverEmpty Agrees First NeverMisses Emit
CHECK_DEADLOCK FALSE
