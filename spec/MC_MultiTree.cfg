SPECIFICATION Spec
CONSTANTS
  NT = 2
  NX = 1
  NV = 1
  MaxIds = 4
  MaxCommits = 4
  MaxLocks = 1
  RcRoots = FALSE
  Fine = TRUE
  Fix = {"F18"}
  Shapes <- ShapesTiny
INVARIANTS TypeOK NoCorrupt ReaderStable IdealVisible XVisible FinalState
VIEW ViewNoHist
CHECK_DEADLOCK FALSE
