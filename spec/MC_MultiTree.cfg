SPECIFICATION MCSpec
CONSTANTS
  NT = 2
  NX = 1
  NV = 1
  MaxIds = 4
  MaxCommits = 4
  MaxLocks = 1
  MaxCrash = 0
  RcRoots = FALSE
  AO = FALSE
  Fine = TRUE
  MaxDefers = 2
  Fix = {"F18", "F20"}
  Mut = {}
  Shapes <- ShapesTiny
  GenLen = 1
  RejW = 6
  Pipes = {}
INVARIANTS TypeOK NoCorrupt ReaderStable IdealVisible XVisible FinalState
VIEW ViewNoHist
CONSTRAINT DeferBound
CHECK_DEADLOCK FALSE
