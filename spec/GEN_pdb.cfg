\* behaviour generation for C01/C03/C07/C08: stepping granularity, clean restarts, rejects
CONSTANTS
  NCols = 2
  Kind <- Kind_hr
  NKeys = 2
  NVals = 2
  MaxCalls = 30
  MaxOps = 3
  MaxCrash = 0
  MaxAux = 0
  Fine = FALSE
  Gen = TRUE
  Feat = {"restart", "reject"}
  SyncWal = TRUE
  SyncData = TRUE
  InitRid = 1
  InitCid = 0
  Mut = {}
  GenLen = 30
SPECIFICATION GenSpec
INVARIANTS EmitTrace ReadLatest
CHECK_DEADLOCK FALSE
