------------------------------ MODULE MCIndex ------------------------------
EXTENDS Index
\* keys 1,2 and 3,4 collide pairwise on every bit the index stores
Pfx5 == <<0, 0, 1, 1, 2>>
Pfx4 == <<0, 0, 1, 2>>
=============================================================================
