\* C01: hash columns are a key-value map at every pipeline stage, incl. clean restarts.
CONSTANTS
  NCols = 2
  Kind <- Kind_hh
  NKeys = 1
  NVals = 2
  MaxCalls = 3
  MaxOps = 2
  MaxCrash = 0
  MaxAux = 1
  Fine = TRUE
  Gen = FALSE
  Feat = {"restart", "aux"}
  SyncWal = TRUE
  SyncData = TRUE
  InitRid = 1
  InitCid = 0
  Mut = {}
  GenLen = 0
SPECIFICATION Spec
VIEW ViewLogical
INVARIANTS TypeOK ReadLatest LayerHandOver DrainedIsAll
CHECK_DEADLOCK FALSE
