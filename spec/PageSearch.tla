----------------------------- MODULE PageSearch -----------------------------
(***************************************************************************)
(* C19: searching an index page (index.rs find_entry_sse2 / find_entry_base)*)
(*                                                                         *)
(* A page has N slots; an entry is [hi, lo, addr]: `hi` = the partial-key  *)
(* bits the vectorised path compares (32 bits), `lo` = the partial-key     *)
(* bits it drops (non-empty only for index sizes 16 and 17), addr # 0 for  *)
(* a used slot; the empty slot is all zero.  The vectorised path works on  *)
(* blocks of W slots aligned at multiples of W; it starts in the block     *)
(* that contains the start position p and masks the lanes before p; when   *)
(* the compared bits of the key are zero it falls back to the scalar       *)
(* search (an empty slot would match).                                     *)
(*                                                                         *)
(* Both functions are transcribed; TLC checks C19 for every page over a    *)
(* small entry domain, every key and every start position.                 *)
(***************************************************************************)
EXTENDS Integers, Sequences, FiniteSets, TLC, Json

CONSTANTS N, W, Dom, KeyDom, SamplePct

VARIABLES page, key, p

Empty == [hi |-> 0, lo |-> 0, addr |-> 0]
IsEmpty(e) == e.hi = 0 /\ e.lo = 0 /\ e.addr = 0

Slots == 0..(N - 1)

\* find_entry_base: first slot at or after p with the full partial key, not empty
Base(pg, k, s) ==
    LET M == {i \in Slots : i >= s /\ pg[i + 1].hi = k.hi /\ pg[i + 1].lo = k.lo /\ ~IsEmpty(pg[i + 1])} IN
    IF M = {} THEN [found |-> FALSE, pos |-> 0]
    ELSE [found |-> TRUE, pos |-> CHOOSE i \in M : \A j \in M : i <= j]

\* find_entry_sse2: blocks of W lanes; compare `hi` only; lanes before the start are skipped
RECURSIVE FastFrom(_, _, _, _)
FastFrom(pg, k, i, skip) ==
    IF i + W > N THEN [found |-> FALSE, pos |-> 0]
    ELSE LET L == {j \in 0..(W - 1) : j >= skip /\ pg[i + j + 1].hi = k.hi} IN
         IF L # {} THEN [found |-> TRUE, pos |-> i + (CHOOSE j \in L : \A j2 \in L : j <= j2)]
         ELSE FastFrom(pg, k, i + W, 0)

Fast(pg, k, s) ==
    IF k.hi = 0 THEN Base(pg, k, s)                     \* zero pattern: scalar fallback
    ELSE LET i == (s \div W) * W IN FastFrom(pg, k, i, s - i)

Init ==
    /\ page \in [1..N -> Dom]
    /\ key \in KeyDom
    /\ p \in Slots

Next == UNCHANGED <<page, key, p>>
Spec == Init /\ [][Next]_<<page, key, p>>

F == Fast(page, key, p)
B == Base(page, key, p)

\* the result is a slot at or after p ...
NeverBefore == F.found => F.pos >= p
\* ... that is not empty ...
NeverEmpty == F.found => ~IsEmpty(page[F.pos + 1])
\* ... whose stored partial key agrees with the key on every bit the path compares ...
Agrees == F.found => (page[F.pos + 1].hi = key.hi /\ (key.hi = 0 => page[F.pos + 1].lo = key.lo))
\* ... and it is the FIRST such slot
First == F.found =>
           \A i \in Slots : (i >= p /\ i < F.pos) =>
               ~(page[i + 1].hi = key.hi /\ (key.hi = 0 => page[i + 1].lo = key.lo) /\ ~IsEmpty(page[i + 1]))
\* never 'absent' when the exact scalar search finds a match (and never later than it)
NeverMisses == B.found => (F.found /\ F.pos <= B.pos)

\* a sample of the cases, with the specification's answers, for replay into the real functions
Emit == (RandomElement(1..100) > SamplePct) \/
        PrintT("REPLAY " \o ToJson([page |-> page, key |-> key, p |-> p,
                                    fast |-> IF F.found THEN F.pos ELSE -1,
                                    base |-> IF B.found THEN B.pos ELSE -1]))
=============================================================================
