--------------------------- MODULE TraceMultiTree ---------------------------
(***************************************************************************)
(* Trace validation for tree columns (C10 / C11): a history recorded from  *)
(* the implementation by a random single-threaded driver with reader       *)
(* threads (harness command mtree-record) must be a behaviour of           *)
(* MultiTree.tla.  Client calls carry the tree shape in model node ids     *)
(* (the driver allocates ids in claim order, exactly like the model);      *)
(* Process / Defer events come from the hook events of process_commits;    *)
(* Obs events are projections of what the implementation returns (visible  *)
(* roots, the nodes reached from them, plain keys, entry count), Counts    *)
(* events are the ref-count table and the slot census when drained.        *)
(***************************************************************************)
EXTENDS MultiTree, Json, IOUtils

Rec == ndJsonDeserialize(IOEnv.TRACE)

VARIABLE l
tvars == <<vars, l>>

Ev == Rec[l]
IsEvent(e) == l <= Len(Rec) /\ Ev.e = e
Advance == l' = l + 1
Same == UNCHANGED <<roots, nrc, nkids, xs, covlT, covlX, queue, inflight, toDeref, locked, snap,
                    nextId, nextCid, ncommits, nlocks, ideal, idealX, conflictT, conflictX, corrupt,
                    hdrMark, leaked, ncrash, wpend>>
Silently == hist' = Hist([a |-> Ev.e]) /\ Same

RECURSIVE RefsOf(_)
RefsOf(sh) == IF sh = <<>> THEN {}
              ELSE (IF Head(sh).new THEN RefsOf(Head(sh).kids) ELSE {Head(sh).ref}) \cup RefsOf(Tail(sh))

TCommit ==
    /\ IsEvent("Commit")
    /\ Ev.cid = nextCid
    /\ LET st == [x |-> Ev.set.x, v |-> Ev.set.v]
           t == Ev.tree IN
       /\ CASE t.t = "ins" -> RefsOf(t.sh) \subseteq Refable /\ CommitIns(t.k, t.sh, st)
            [] t.t = "deref" -> CommitDeref(t.k, st)
            [] t.t = "ref" -> CommitRef(t.k, st)
            [] OTHER -> CommitSetOnly(st)
       /\ CommitCommon(st) /\ UNCHANGED wpend
    /\ Advance

TProcess == IsEvent("Process") /\ queue # <<>> /\ Head(queue).cid = Ev.cid /\ Process /\ Advance
TDefer == /\ IsEvent("Defer") /\ queue # <<>> /\ Head(queue).cid = Ev.cid /\ nextCid = Ev.ncid
          /\ Defer /\ Advance
\* the lone deferred commit keeps its id: nothing changes (the worker spins)
TSpin == /\ IsEvent("Spin") /\ queue # <<>> /\ Tail(queue) = <<>> /\ MustDefer(Head(queue), <<>>)
         /\ Head(queue).cid = Ev.cid /\ Silently /\ Advance
TLock == IsEvent("Lock") /\ Lock(Ev.k) /\ Advance
TUnlock == IsEvent("Unlock") /\ Unlock(Ev.k) /\ Advance
TCrash == IsEvent("Crash") /\ Crash /\ Advance
TRestart == IsEvent("Restart") /\ queue = <<>> /\ inflight = <<>> /\ locked = {} /\ Silently /\ Advance
TQuiet == (IsEvent("Pipe") \/ IsEvent("Reject")) /\ Silently /\ Advance

\* what the implementation returned: compared as values (no branching)
ObsOK ==
    /\ \A k \in TKeys :
         LET o == Ev.vis[k]  r == VisibleRoot(k) IN
         IF r.rc > 0 THEN o.live /\ o.data = r.data /\ o.kids = r.kids ELSE ~o.live
    /\ \A i \in DOMAIN Ev.nodes :
         LET n == Ev.nodes[i].id IN n \in Ids /\ nrc[n] > 0 /\ nkids[n] = Ev.nodes[i].kids
    /\ \A x \in XKeys : Ev.x[x] = VisibleX(x)
    /\ Ev.entries >= 0 => Ev.entries = Entries
TObs == IsEvent("Obs") /\ (ObsOK = TRUE) /\ Silently /\ Advance

\* drained: stored node counts and the slot census
CountsOK ==
    /\ \A i \in DOMAIN Ev.rc : LET n == Ev.rc[i].id IN n \in Ids /\ nrc[n] = Ev.rc[i].count
    /\ Ev.stray = 0
    /\ Ev.orphans >= 0 => Ev.orphans = Cardinality(leaked)      \* (-1: no census, multi-part values present)
TCounts == IsEvent("Counts") /\ queue = <<>> /\ (CountsOK = TRUE) /\ Silently /\ Advance

TraceNext == TCommit \/ TProcess \/ TDefer \/ TSpin \/ TLock \/ TUnlock \/ TCrash \/ TRestart \/ TQuiet
             \/ TObs \/ TCounts

TraceSpec == Init /\ l = 1 /\ [][TraceNext]_tvars

TraceView == <<ViewNoHist, l>>

TraceAccepted ==
    LET d == TLCGet("stats").diameter IN
    /\ PrintT("TRACE-RESULT matched=" \o ToString(d - 1) \o " total=" \o ToString(Len(Rec)))
    /\ IF d - 1 = Len(Rec) THEN TRUE
       ELSE /\ PrintT(<<"TRACE-FIRST-UNMATCHED", d, Rec[d]>>)
            /\ FALSE
=============================================================================
