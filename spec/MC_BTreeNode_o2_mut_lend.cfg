\* necessity: a full inner node that lends its first child loses its last one - the invariants must fail
\* every tree reachable over 9 keys with 2 separators per node (three levels), every insertion and removal from it
CONSTANTS
  ORDER = 2
  NK = 11
  KeepHist = FALSE
  GrowLen = 0
  AscSizes = {}
  Mut = {"lend_drops_last_child"}
  BatchPct = 0
  GenLen = 0
SPECIFICATION Spec
VIEW View
INVARIANTS TreeOK ContentOK MinFill
CHECK_DEADLOCK FALSE
