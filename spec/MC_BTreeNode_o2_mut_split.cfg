\* necessity: children of a split-off inner node one slot too far - the invariants must fail
\* every tree reachable over 9 keys with 2 separators per node (three levels), every insertion and removal from it
CONSTANTS
  ORDER = 2
  NK = 9
  KeepHist = FALSE
  GrowLen = 0
  AscSizes = {}
  Mut = {"split_child_offset"}
  BatchPct = 0
  GenLen = 0
SPECIFICATION Spec
VIEW View
INVARIANTS TreeOK ContentOK MinFill
CHECK_DEADLOCK FALSE
