------------------------------ MODULE Workers ------------------------------
(***************************************************************************)
(* C15: wake-up and throttling protocol of the write pipeline (db.rs).     *)
(*                                                                         *)
(* Threads: clients (commit_raw), log worker, flush worker, commit worker, *)
(* cleanup worker, and the thread that drops the handle.  Data is          *)
(* abstracted to counters: every commit has size 1.                        *)
(*                                                                         *)
(* WaitCondvar<bool> (signal = set flag under its mutex + notify, wait =   *)
(* loop until flag, clear it) never loses a wake-up and is modelled as a   *)
(* flag.  The two bare condition variables are modelled as they are used:  *)
(*   commit_queue_full_cv  - waited on under the commit-queue mutex with   *)
(*                           `if`, not `while`; notified by the log worker *)
(*                           (holding that mutex) and by store_err         *)
(*                           (NOT holding it);                             *)
(*   log_queue_wait.cv     - waited on under log_queue_wait.work with      *)
(*                           `if`; notified by the commit worker (holding  *)
(*                           it) and by shutdown() (NOT holding it).       *)
(* A notification sent while the waiter is between its check and its park  *)
(* is lost unless the notifier needs the waiter's mutex.  Both mutexes are  *)
(* explicit variables for that reason.                                     *)
(*                                                                         *)
(* Fix \subseteq {"S1","S2","S7"} applies the repairs discussed in         *)
(* DESIGN.md section 10 (notify under the waiter's mutex; cleanup worker   *)
(* re-checks the dirty count): with Fix = {} TLC reports the three         *)
(* deadlocks, with all three it proves deadlock freedom and the liveness   *)
(* properties for the bounded instance.                                    *)
(***************************************************************************)
EXTENDS Integers, Sequences, FiniteSets, TLC

CONSTANTS
    NClients,     \* client threads
    NCommits,     \* commits per client
    MaxQ,         \* commit blocks while queued bytes > MaxQ      (MAX_COMMIT_QUEUE_BYTES)
    MaxL,         \* log worker blocks while logged bytes > MaxL  (MAX_LOG_QUEUE_BYTES)
    MaxLogs,      \* commit worker blocks while dirty logs > MaxLogs (MAX_LOG_FILES)
    MinLog,       \* flush only when the appending file is larger than this (0 = always_flush)
    Faults,       \* TRUE: a worker's I/O may fail (store_err)
    Fix           \* applied repairs

Clients == 1..NClients

VARIABLES
    cpc, cleft,        \* clients: pc and commits still to make
    qbytes,            \* CommitQueue.bytes (= queued commits)
    qmx,               \* owner of the commit-queue mutex ("" = free)
    fullWaiting,       \* clients parked on commit_queue_full_cv
    accepted, rejected,\* commits accepted / refused with a background error
    lpc, moreCommits,  \* log worker
    lmx,               \* owner of log_queue_wait.work ("" = free)
    logQ,              \* logged, not yet enacted bytes
    lqWaiting,         \* log worker parked on log_queue_wait.cv
    app,               \* records in the appending file
    readQ,             \* flushed files waiting to be read: Seq of sizes
    reading,           \* records left in the open log file (-1 = no file open, 0 = exhausted, EOF not yet seen)
    dirty,             \* files in the cleanup queue
    enacted,           \* records applied
    fpc, fmore,        \* flush worker
    kpc, kmore,        \* commit worker
    npc, nmore, ncount,\* cleanup worker (ncount = dirty logs counted at the start of clean_logs)
    sigLog, sigFlush, sigCommit, sigCleanup, sigCleanQ,   \* WaitCondvar flags
    shutdown, bgErr,
    dpc                \* dropping thread: "idle" | "joinL" | "joinF" | "joinK" | "joinN" | "kill" | "done"

vars == <<cpc, cleft, qbytes, qmx, fullWaiting, accepted, rejected, lpc, moreCommits, lmx, logQ,
          lqWaiting, app, readQ, reading, dirty, enacted, fpc, fmore, kpc, kmore, npc, nmore, ncount,
          sigLog, sigFlush, sigCommit, sigCleanup, sigCleanQ, shutdown, bgErr, dpc>>

Init ==
    /\ cpc = [c \in Clients |-> "idle"] /\ cleft = [c \in Clients |-> NCommits]
    /\ qbytes = 0 /\ qmx = "" /\ fullWaiting = {} /\ accepted = 0 /\ rejected = 0
    /\ lpc = "top" /\ moreCommits = FALSE /\ lmx = "" /\ logQ = 0 /\ lqWaiting = FALSE
    /\ app = 0 /\ readQ = <<>> /\ reading = -1 /\ dirty = 0 /\ enacted = 0
    /\ fpc = "top" /\ fmore = FALSE
    /\ kpc = "top" /\ kmore = FALSE
    /\ npc = "top" /\ nmore = TRUE /\ ncount = 0
    /\ sigLog = FALSE /\ sigFlush = FALSE /\ sigCommit = FALSE /\ sigCleanup = FALSE /\ sigCleanQ = FALSE
    /\ shutdown = FALSE /\ bgErr = FALSE
    /\ dpc = "idle"

U(keep) == UNCHANGED keep

\* shutdown(): flag, notify the throttled log worker WITHOUT its mutex, signal all workers
DoShutdown ==
    /\ shutdown' = TRUE
    /\ lqWaiting' = FALSE       \* notify_one: wakes the log worker only if it is parked right now
    /\ sigFlush' = TRUE /\ sigLog' = TRUE /\ sigCommit' = TRUE /\ sigCleanup' = TRUE
    /\ sigCleanQ' = IF "S7" \in Fix THEN TRUE ELSE sigCleanQ

----------------------------------------------------------------------------
(* clients: commit_raw *)

CLock(c) ==
    /\ cpc[c] = "idle" /\ cleft[c] > 0 /\ qmx = "" /\ dpc = "idle"
    /\ qmx' = "c"
    /\ cpc' = [cpc EXCEPT ![c] = IF qbytes > MaxQ /\ ~("S1" \in Fix /\ bgErr) THEN "willwait" ELSE "locked"]
    /\ U(<<cleft, qbytes, fullWaiting, accepted, rejected, lpc, moreCommits, lmx, logQ, lqWaiting, app, readQ,
           reading, dirty, enacted, fpc, fmore, kpc, kmore, npc, nmore, ncount, sigLog, sigFlush, sigCommit, sigCleanup,
           sigCleanQ, shutdown, bgErr, dpc>>)

\* Condvar::wait: park and release the mutex atomically
CPark(c) ==
    /\ cpc[c] = "willwait"
    /\ fullWaiting' = fullWaiting \cup {c}
    /\ qmx' = ""
    /\ cpc' = [cpc EXCEPT ![c] = "parked"]
    /\ U(<<cleft, qbytes, accepted, rejected, lpc, moreCommits, lmx, logQ, lqWaiting, app, readQ, reading, dirty,
           enacted, fpc, fmore, kpc, kmore, npc, nmore, ncount, sigLog, sigFlush, sigCommit, sigCleanup, sigCleanQ,
           shutdown, bgErr, dpc>>)

\* woken: re-acquire the mutex and go on (`if`, the condition is not re-checked)
CWake(c) ==
    /\ cpc[c] = "parked" /\ c \notin fullWaiting /\ qmx = ""
    /\ qmx' = "c"
    /\ cpc' = [cpc EXCEPT ![c] = "locked"]
    /\ U(<<cleft, qbytes, fullWaiting, accepted, rejected, lpc, moreCommits, lmx, logQ, lqWaiting, app, readQ,
           reading, dirty, enacted, fpc, fmore, kpc, kmore, npc, nmore, ncount, sigLog, sigFlush, sigCommit, sigCleanup,
           sigCleanQ, shutdown, bgErr, dpc>>)

\* bg_err check, push, signal the log worker, unlock, return
CPush(c) ==
    /\ cpc[c] = "locked"
    /\ IF bgErr
       THEN rejected' = rejected + 1 /\ U(<<qbytes, accepted, sigLog>>)
       ELSE qbytes' = qbytes + 1 /\ accepted' = accepted + 1 /\ sigLog' = TRUE /\ U(rejected)
    /\ qmx' = ""
    /\ cleft' = [cleft EXCEPT ![c] = @ - 1]
    /\ cpc' = [cpc EXCEPT ![c] = "idle"]
    /\ U(<<fullWaiting, lpc, moreCommits, lmx, logQ, lqWaiting, app, readQ, reading, dirty, enacted, fpc, fmore,
           kpc, kmore, npc, nmore, ncount, sigFlush, sigCommit, sigCleanup, sigCleanQ, shutdown, bgErr, dpc>>)

----------------------------------------------------------------------------
(* log worker: while !shutdown || more_commits { if !more_commits {wait}; more_commits = process_commits() } *)

LTop ==
    /\ lpc = "top"
    /\ lpc' = IF ~shutdown \/ moreCommits THEN (IF moreCommits THEN "throttle" ELSE "wait") ELSE "exit"
    /\ U(<<cpc, cleft, qbytes, qmx, fullWaiting, accepted, rejected, moreCommits, lmx, logQ, lqWaiting, app, readQ,
           reading, dirty, enacted, fpc, fmore, kpc, kmore, npc, nmore, ncount, sigLog, sigFlush, sigCommit, sigCleanup,
           sigCleanQ, shutdown, bgErr, dpc>>)

LWait ==
    /\ lpc = "wait" /\ sigLog
    /\ sigLog' = FALSE /\ lpc' = "throttle"
    /\ U(<<cpc, cleft, qbytes, qmx, fullWaiting, accepted, rejected, moreCommits, lmx, logQ, lqWaiting, app, readQ,
           reading, dirty, enacted, fpc, fmore, kpc, kmore, npc, nmore, ncount, sigFlush, sigCommit, sigCleanup, sigCleanQ,
           shutdown, bgErr, dpc>>)

\* process_commits: lock log_queue_wait.work; if !shutdown && logQ > MaxL { cv.wait }
LThrottle ==
    /\ lpc = "throttle" /\ lmx = ""
    /\ IF ~shutdown /\ logQ > MaxL
       THEN lmx' = "l" /\ lpc' = "willwait"
       ELSE lmx' = "" /\ lpc' = "pop"
    /\ U(<<cpc, cleft, qbytes, qmx, fullWaiting, accepted, rejected, moreCommits, logQ, lqWaiting, app, readQ,
           reading, dirty, enacted, fpc, fmore, kpc, kmore, npc, nmore, ncount, sigLog, sigFlush, sigCommit, sigCleanup,
           sigCleanQ, shutdown, bgErr, dpc>>)

LPark ==
    /\ lpc = "willwait"
    /\ lqWaiting' = TRUE /\ lmx' = "" /\ lpc' = "parked"
    /\ U(<<cpc, cleft, qbytes, qmx, fullWaiting, accepted, rejected, moreCommits, logQ, app, readQ, reading, dirty,
           enacted, fpc, fmore, kpc, kmore, npc, nmore, ncount, sigLog, sigFlush, sigCommit, sigCleanup, sigCleanQ,
           shutdown, bgErr, dpc>>)

LWake ==
    /\ lpc = "parked" /\ ~lqWaiting /\ lmx = ""
    /\ lpc' = "pop"
    /\ U(<<cpc, cleft, qbytes, qmx, fullWaiting, accepted, rejected, moreCommits, lmx, logQ, lqWaiting, app, readQ,
           reading, dirty, enacted, fpc, fmore, kpc, kmore, npc, nmore, ncount, sigLog, sigFlush, sigCommit, sigCleanup,
           sigCleanQ, shutdown, bgErr, dpc>>)

\* pop under the queue mutex; crossing the threshold downwards notifies all waiting clients
LPop ==
    /\ lpc = "pop" /\ qmx = ""
    /\ IF qbytes > 0
       THEN /\ qbytes' = qbytes - 1
            \* notify_all at the crossing ("one_wake" \in Fix: a deliberately broken variant that wakes
            \* a single waiter, used as a necessity config)
            /\ fullWaiting' = IF qbytes - 1 <= MaxQ /\ qbytes > MaxQ
                              THEN (IF "one_wake" \in Fix /\ fullWaiting # {}
                                    THEN fullWaiting \ {CHOOSE c \in fullWaiting : TRUE} ELSE {})
                              ELSE fullWaiting
            /\ lpc' = "log"
       ELSE /\ moreCommits' = FALSE /\ lpc' = "top" /\ U(<<qbytes, fullWaiting>>)
    /\ IF qbytes > 0 THEN U(moreCommits) ELSE TRUE
    /\ U(<<cpc, cleft, qmx, accepted, rejected, lmx, logQ, lqWaiting, app, readQ, reading, dirty, enacted, fpc,
           fmore, kpc, kmore, npc, nmore, ncount, sigLog, sigFlush, sigCommit, sigCleanup, sigCleanQ, shutdown, bgErr, dpc>>)

\* end_record, then under log_queue_wait.work: logQ += bytes; flush_worker_wait.signal()
LLog ==
    /\ lpc = "log" /\ lmx = ""
    /\ app' = app + 1 /\ logQ' = logQ + 1 /\ sigFlush' = TRUE
    /\ moreCommits' = TRUE /\ lpc' = "top"
    /\ U(<<cpc, cleft, qbytes, qmx, fullWaiting, accepted, rejected, lmx, lqWaiting, readQ, reading, dirty, enacted,
           fpc, fmore, kpc, kmore, npc, nmore, ncount, sigLog, sigCommit, sigCleanup, sigCleanQ, shutdown, bgErr, dpc>>)

\* the log worker's write fails: store_err = set error, shutdown(), notify_all WITHOUT the queue mutex
LFail ==
    /\ Faults /\ lpc = "log" /\ ~bgErr
    /\ bgErr' = TRUE
    /\ DoShutdown
    /\ IF "S1" \in Fix THEN (qmx = "" /\ fullWaiting' = {}) ELSE fullWaiting' = {}
    /\ lpc' = "exit"
    /\ U(<<cpc, cleft, qbytes, qmx, accepted, rejected, moreCommits, lmx, logQ, app, readQ, reading, dirty, enacted,
           fpc, fmore, kpc, kmore, npc, nmore, ncount, dpc>>)

----------------------------------------------------------------------------
(* flush worker: while !shutdown { if !more {wait}; more = flush_logs() } *)

FTop ==
    /\ fpc = "top"
    /\ fpc' = IF ~shutdown THEN (IF fmore THEN "flush" ELSE "wait") ELSE "exit"
    /\ U(<<cpc, cleft, qbytes, qmx, fullWaiting, accepted, rejected, lpc, moreCommits, lmx, logQ, lqWaiting, app,
           readQ, reading, dirty, enacted, fmore, kpc, kmore, npc, nmore, ncount, sigLog, sigFlush, sigCommit, sigCleanup,
           sigCleanQ, shutdown, bgErr, dpc>>)

FWait ==
    /\ fpc = "wait" /\ sigFlush
    /\ sigFlush' = FALSE /\ fpc' = "flush"
    /\ U(<<cpc, cleft, qbytes, qmx, fullWaiting, accepted, rejected, lpc, moreCommits, lmx, logQ, lqWaiting, app,
           readQ, reading, dirty, enacted, fmore, kpc, kmore, npc, nmore, ncount, sigLog, sigCommit, sigCleanup, sigCleanQ,
           shutdown, bgErr, dpc>>)

FFlush ==
    /\ fpc = "flush"
    /\ IF app > MinLog
       THEN readQ' = Append(readQ, app) /\ app' = 0 /\ sigCommit' = TRUE /\ fmore' = TRUE
       ELSE fmore' = FALSE /\ U(<<readQ, app, sigCommit>>)
    /\ fpc' = "top"
    /\ U(<<cpc, cleft, qbytes, qmx, fullWaiting, accepted, rejected, lpc, moreCommits, lmx, logQ, lqWaiting, reading,
           dirty, enacted, kpc, kmore, npc, nmore, ncount, sigLog, sigFlush, sigCleanup, sigCleanQ, shutdown, bgErr, dpc>>)

----------------------------------------------------------------------------
(* commit worker: while !shutdown || more { if !more { cleanup.signal(); if !has_files {wait} }; more = enact_logs() } *)

KTop ==
    /\ kpc = "top"
    /\ IF ~shutdown \/ kmore
       THEN IF kmore THEN kpc' = "enact" /\ U(sigCleanup)
            ELSE sigCleanup' = TRUE /\ kpc' = (IF Len(readQ) > 0 THEN "enact" ELSE "wait")
       ELSE kpc' = "exit" /\ U(sigCleanup)
    /\ U(<<cpc, cleft, qbytes, qmx, fullWaiting, accepted, rejected, lpc, moreCommits, lmx, logQ, lqWaiting, app,
           readQ, reading, dirty, enacted, fpc, fmore, kmore, npc, nmore, ncount, sigLog, sigFlush, sigCommit, sigCleanQ,
           shutdown, bgErr, dpc>>)

KWait ==
    /\ kpc = "wait" /\ sigCommit
    /\ sigCommit' = FALSE /\ kpc' = "enact"
    /\ U(<<cpc, cleft, qbytes, qmx, fullWaiting, accepted, rejected, lpc, moreCommits, lmx, logQ, lqWaiting, app,
           readQ, reading, dirty, enacted, fpc, fmore, kmore, npc, nmore, ncount, sigLog, sigFlush, sigCleanup, sigCleanQ,
           shutdown, bgErr, dpc>>)

\* enact_logs: open the next file if none is open, apply one record; or see the end of the
\* open file (it joins the cleanup queue, the call returns false)
KEnact ==
    /\ kpc = "enact" /\ lmx = ""
    /\ IF reading = -1 /\ Len(readQ) = 0
       THEN kmore' = FALSE /\ kpc' = "top" /\ U(<<reading, readQ, dirty, enacted, logQ, lqWaiting>>)
       ELSE IF reading = 0
       THEN dirty' = dirty + 1 /\ reading' = -1 /\ kmore' = FALSE /\ kpc' = "top"
            /\ U(<<readQ, enacted, logQ, lqWaiting>>)
       ELSE LET cur == IF reading = -1 THEN Head(readQ) ELSE reading IN
            /\ readQ' = IF reading = -1 THEN Tail(readQ) ELSE readQ
            /\ reading' = cur - 1
            /\ enacted' = enacted + 1
            /\ logQ' = logQ - 1
            /\ lqWaiting' = IF logQ - 1 <= MaxL /\ logQ > MaxL THEN FALSE ELSE lqWaiting
            /\ kmore' = TRUE /\ kpc' = "dirtywait" /\ U(dirty)
    /\ U(<<cpc, cleft, qbytes, qmx, fullWaiting, accepted, rejected, lpc, moreCommits, lmx, app, fpc, fmore, npc,
           nmore, ncount, sigLog, sigFlush, sigCommit, sigCleanup, sigCleanQ, shutdown, bgErr, dpc>>)

\* after each record: while num_dirty_logs() > max_logs { cleanup_queue_wait.wait() }
KDirtyWait ==
    /\ kpc = "dirtywait"
    /\ IF dirty > MaxLogs /\ ~("S7" \in Fix /\ shutdown)
       THEN sigCleanQ /\ sigCleanQ' = FALSE /\ U(kpc)
       ELSE kpc' = "top" /\ U(sigCleanQ)
    /\ U(<<cpc, cleft, qbytes, qmx, fullWaiting, accepted, rejected, lpc, moreCommits, lmx, logQ, lqWaiting, app,
           readQ, reading, dirty, enacted, fpc, fmore, kmore, npc, nmore, ncount, sigLog, sigFlush, sigCommit, sigCleanup,
           shutdown, bgErr, dpc>>)

----------------------------------------------------------------------------
(* cleanup worker: more = true; while !shutdown || more { if !more {wait}; more = clean_logs() } *)

NTop ==
    /\ npc = "top"
    /\ npc' = IF ~shutdown \/ nmore THEN (IF nmore THEN "count" ELSE "wait") ELSE "exit"
    /\ U(<<cpc, cleft, qbytes, qmx, fullWaiting, accepted, rejected, lpc, moreCommits, lmx, logQ, lqWaiting, app,
           readQ, reading, dirty, enacted, fpc, fmore, kpc, kmore, nmore, ncount, sigLog, sigFlush, sigCommit, sigCleanup,
           sigCleanQ, shutdown, bgErr, dpc>>)

NWait ==
    /\ npc = "wait" /\ sigCleanup
    /\ sigCleanup' = FALSE /\ npc' = "count"
    /\ U(<<cpc, cleft, qbytes, qmx, fullWaiting, accepted, rejected, lpc, moreCommits, lmx, logQ, lqWaiting, app,
           readQ, reading, dirty, enacted, fpc, fmore, kpc, kmore, nmore, ncount, sigLog, sigFlush, sigCommit, sigCleanQ,
           shutdown, bgErr, dpc>>)

\* clean_logs, first half: num_cleanup = num_dirty_logs(); flush the tables
NCount ==
    /\ npc = "count"
    /\ ncount' = dirty /\ npc' = "clean"
    /\ U(<<cpc, cleft, qbytes, qmx, fullWaiting, accepted, rejected, lpc, moreCommits, lmx, logQ, lqWaiting, app,
           readQ, reading, dirty, enacted, fpc, fmore, kpc, kmore, nmore, sigLog, sigFlush, sigCommit, sigCleanup,
           sigCleanQ, shutdown, bgErr, dpc>>)

\* second half: truncate the counted logs (more may have arrived), signal the commit worker
NClean ==
    /\ npc = "clean"
    /\ dirty' = dirty - ncount
    /\ nmore' = (ncount > 0 /\ dirty - ncount > 0)
    /\ sigCleanQ' = TRUE
    /\ npc' = "top"
    /\ U(<<cpc, cleft, qbytes, qmx, fullWaiting, accepted, rejected, lpc, moreCommits, lmx, logQ, lqWaiting, app,
           readQ, reading, enacted, fpc, fmore, kpc, kmore, ncount, sigLog, sigFlush, sigCommit, sigCleanup, shutdown,
           bgErr, dpc>>)

----------------------------------------------------------------------------
(* Drop for Db: shutdown(), join log / flush / commit / cleanup, kill_logs *)

DStart ==
    /\ dpc = "idle" /\ \A c \in Clients : cpc[c] = "idle"
    /\ IF "S2" \in Fix THEN lmx = "" ELSE TRUE
    /\ DoShutdown
    /\ dpc' = "joinL"
    /\ U(<<cpc, cleft, qbytes, qmx, fullWaiting, accepted, rejected, lpc, moreCommits, lmx, logQ, app, readQ, reading,
           dirty, enacted, fpc, fmore, kpc, kmore, npc, nmore, ncount, bgErr>>)

DJoin ==
    /\ \/ (dpc = "joinL" /\ lpc = "exit" /\ dpc' = "joinF")
       \/ (dpc = "joinF" /\ fpc = "exit" /\ dpc' = "joinK")
       \/ (dpc = "joinK" /\ kpc = "exit" /\ dpc' = "joinN")
       \/ (dpc = "joinN" /\ npc = "exit" /\ dpc' = "kill")
    /\ U(<<cpc, cleft, qbytes, qmx, fullWaiting, accepted, rejected, lpc, moreCommits, lmx, logQ, lqWaiting, app,
           readQ, reading, dirty, enacted, fpc, fmore, kpc, kmore, npc, nmore, ncount, sigLog, sigFlush, sigCommit,
           sigCleanup, sigCleanQ, shutdown, bgErr>>)

\* kill_logs: single-threaded drain of whatever is left (cannot block)
DKill ==
    /\ dpc = "kill"
    /\ IF bgErr THEN U(<<enacted, qbytes, app, readQ, reading, logQ>>)
       ELSE /\ enacted' = accepted /\ qbytes' = 0 /\ app' = 0 /\ readQ' = <<>> /\ reading' = -1 /\ logQ' = 0
    /\ dirty' = 0
    /\ dpc' = "done"
    /\ U(<<cpc, cleft, qmx, fullWaiting, accepted, rejected, lpc, moreCommits, lmx, lqWaiting, fpc, fmore, kpc, kmore,
           npc, nmore, ncount, sigLog, sigFlush, sigCommit, sigCleanup, sigCleanQ, shutdown, bgErr>>)

\* terminal state: everything finished (stutter, so that deadlock checking flags only real hangs)
Done == dpc = "done" /\ UNCHANGED vars

----------------------------------------------------------------------------
Client == \E c \in Clients : CLock(c) \/ CPark(c) \/ CWake(c) \/ CPush(c)
LogW == LTop \/ LWait \/ LThrottle \/ LPark \/ LWake \/ LPop \/ LLog \/ LFail
FlushW == FTop \/ FWait \/ FFlush
CommitW == KTop \/ KWait \/ KEnact \/ KDirtyWait
CleanW == NTop \/ NWait \/ NCount \/ NClean
Dropper == DStart \/ DJoin \/ DKill

Next == Client \/ LogW \/ FlushW \/ CommitW \/ CleanW \/ Dropper \/ Done

Spec == Init /\ [][Next]_vars
FairSpec == Spec /\ WF_vars(LogW) /\ WF_vars(FlushW) /\ WF_vars(CommitW) /\ WF_vars(CleanW)
                 /\ WF_vars(Dropper) /\ \A c \in Clients : WF_vars(CPark(c) \/ CWake(c) \/ CPush(c))

----------------------------------------------------------------------------
TypeOK ==
    /\ qbytes \in 0..(NClients * NCommits) /\ logQ \in 0..(NClients * NCommits)
    /\ qmx \in {"", "c"} /\ lmx \in {"", "l"}

\* C15: every commit call returns
CommitReturns == \A c \in Clients : (cpc[c] # "idle") ~> (cpc[c] = "idle")
\* every accepted commit is written to the log without further client activity
AllLogged == []((~bgErr) => <>(qbytes = 0 \/ bgErr))
\* ... and applied once its log file is rotated (MinLog = 0: always rotated)
AllEnacted == (MinLog = 0) => <>[](bgErr \/ enacted = accepted \/ dpc # "idle")
\* dropping the handle terminates
ShutdownTerminates == (dpc # "idle") ~> (dpc = "done")
\* ... with all data persisted
AllPersisted == (dpc = "done" /\ ~bgErr) => (enacted = accepted /\ qbytes = 0)
=============================================================================
