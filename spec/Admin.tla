------------------------------- MODULE Admin -------------------------------
(***************************************************************************)
(* C17: column administration and option checks.                           *)
(*                                                                         *)
(* The database stores, per column, an option record in the `metadata`     *)
(* file.  Opening compares the requested options with the stored ones      *)
(* (column count and every per-column flag); add_column / drop_last_column *)
(* / reset_column / clear_column first open the database (which replays    *)
(* pending logs) and then touch only the files of the affected column.     *)
(***************************************************************************)
EXTENDS Naturals, Sequences, FiniteSets, TLC, Json

CONSTANTS MaxCols, NKeys, NVals, GenLen,
          MinCols    \* generation: a new database gets MinCols..MaxCols columns (wide databases: two-digit column numbers)

VARIABLES
    exists,   \* the database directory holds a database
    cols,     \* stored option record of every column
    content,  \* content[c][k] = value id (0 = absent) of plain columns
    step,     \* round-trip script position (RoundTrip spec)
    pend,     \* the previous step left unapplied, synced logs on disk
    trace

vars == <<exists, cols, content, step, pend, trace>>

Fields == {"preimage", "uniform", "rc", "btree", "multitree", "append_only", "direct"}
Opts == [preimage : BOOLEAN, uniform : BOOLEAN, rc : BOOLEAN, comp : 0..2, btree : BOOLEAN,
         multitree : BOOLEAN, append_only : BOOLEAN, direct : BOOLEAN]

\* ColumnOptions::is_valid (options.rs)
Valid(o) ==
    /\ ~(o.rc /\ ~o.preimage)
    /\ ~(o.rc /\ o.append_only)
    /\ ~(o.multitree /\ o.comp # 0)
ValidOpts == {o \in Opts : Valid(o)}

\* columns that hold plain key/value content the model tracks
Plain(o) == ~o.multitree /\ ~o.rc /\ ~o.preimage

Keys == 1..NKeys
EmptyCol == [k \in Keys |-> 0]

Flip(o, f) ==
    CASE f = "preimage"    -> [o EXCEPT !.preimage = ~@]
      [] f = "uniform"     -> [o EXCEPT !.uniform = ~@]
      [] f = "rc"          -> [o EXCEPT !.rc = ~@]
      [] f = "btree"       -> [o EXCEPT !.btree = ~@]
      [] f = "multitree"   -> [o EXCEPT !.multitree = ~@]
      [] f = "append_only" -> [o EXCEPT !.append_only = ~@]
      [] f = "direct"      -> [o EXCEPT !.direct = ~@]
      [] f = "comp"        -> [o EXCEPT !.comp = (@ + 1) % 3]

Log(e) == /\ trace' = Append(trace, e @@ [content |-> content'])
          /\ pend' = (e.a = "Pending")

Init ==
    /\ exists = FALSE /\ cols = <<>> /\ content = <<>> /\ step = 0 /\ pend = FALSE /\ trace = <<>>

Create(cs) ==
    /\ ~exists /\ Len(cs) \in 1..MaxCols /\ \A i \in 1..Len(cs) : Valid(cs[i])
    /\ exists' = TRUE /\ cols' = cs
    /\ content' = [i \in 1..Len(cs) |-> EmptyCol]
    /\ Log([a |-> "Create", cols |-> cs])

\* writes through an open handle; `pending` = the process then dies with synced, unapplied
\* logs (the next open, whoever makes it, has to replay them)
Commit(ops, pending) ==
    /\ exists /\ Len(ops) \in 1..2
    /\ \A i \in 1..Len(ops) : ops[i].c \in 1..Len(cols) /\ Plain(cols[ops[i].c])
    /\ LET RECURSIVE Ap(_, _)
           Ap(ct, i) == IF i > Len(ops) THEN ct
                        ELSE Ap([ct EXCEPT ![ops[i].c][ops[i].k] = ops[i].v], i + 1)
       IN content' = Ap(content, 1)
    /\ UNCHANGED <<exists, cols>>
    /\ Log([a |-> IF pending THEN "Pending" ELSE "Commit", ops |-> ops])

\* Db::open with requested options: succeeds iff they equal the stored ones
Open(req) ==
    /\ exists /\ \A i \in 1..Len(req) : Valid(req[i])
    /\ UNCHANGED <<exists, cols, content>>
    /\ Log([a |-> "Open", cols |-> req, ok |-> (req = cols)])

\* opening a missing database without create fails and creates nothing
OpenMissing(variant) ==
    /\ variant \in {"absent", "emptydir"}
    /\ UNCHANGED <<exists, cols, content>>
    /\ Log([a |-> "OpenMissing", variant |-> variant])

AddColumn(o) ==
    /\ exists /\ Valid(o) /\ Len(cols) < MaxCols
    /\ cols' = Append(cols, o)
    /\ content' = Append(content, EmptyCol)
    /\ UNCHANGED exists
    /\ Log([a |-> "AddColumn", opt |-> o])

DropLast ==
    /\ exists /\ Len(cols) > 1
    /\ cols' = SubSeq(cols, 1, Len(cols) - 1)
    /\ content' = SubSeq(content, 1, Len(content) - 1)
    /\ UNCHANGED exists
    /\ Log([a |-> "DropLast"])

Reset(c, o, change) ==
    /\ exists /\ c \in 1..Len(cols) /\ Valid(o)
    /\ cols' = IF change THEN [cols EXCEPT ![c] = o] ELSE cols
    /\ content' = [content EXCEPT ![c] = EmptyCol]
    /\ UNCHANGED exists
    /\ Log([a |-> "Reset", c |-> c, opt |-> IF change THEN <<o>> ELSE <<>>])

Clear(c) ==
    /\ exists /\ c \in 1..Len(cols)
    /\ content' = [content EXCEPT ![c] = EmptyCol]
    /\ UNCHANGED <<exists, cols>>
    /\ Log([a |-> "Clear", c |-> c])

TypeOK == Len(cols) = Len(content) /\ (exists => Len(cols) >= 1)

----------------------------------------------------------------------------
(* Generation: random administration histories *)
Rand(S) == RandomElement({x \in S : step >= 0})
RandOpt == Rand(ValidOpts)
RandOp == [c |-> Rand(1..Len(cols)), k |-> Rand(Keys), v |-> Rand(0..NVals)]
PlainCols == {i \in 1..Len(cols) : Plain(cols[i])}
RandPlainOp == [c |-> Rand(PlainCols), k |-> Rand(Keys), v |-> Rand(0..NVals)]

GenNext ==
  /\ UNCHANGED step
  /\ pend => (\/ AddColumn(RandOpt) \/ DropLast
               \/ Reset(Rand(1..Len(cols)), RandOpt, Rand(BOOLEAN))
               \/ Clear(Rand(1..Len(cols))))
  /\ ~pend =>
    \/ (~exists /\ LET n == Rand(MinCols..MaxCols) IN Create([i \in 1..n |-> Rand(ValidOpts)]))
    \/ (exists /\ PlainCols # {} /\ Commit(<<RandPlainOp>>, FALSE))
    \/ (exists /\ PlainCols # {} /\ Commit(<<RandPlainOp, RandPlainOp>>, Rand(BOOLEAN)))
    \/ (exists /\ Open(cols))
    \/ (exists /\ LET c == Rand(1..Len(cols))  f == Rand(Fields \cup {"comp"}) IN
                  Valid(Flip(cols[c], f)) /\ Open([cols EXCEPT ![c] = Flip(@, f)]))
    \/ (exists /\ Open(Append(cols, RandOpt)))
    \/ (exists /\ Len(cols) > 1 /\ Open(SubSeq(cols, 1, Len(cols) - 1)))
    \/ OpenMissing(Rand({"absent", "emptydir"}))
    \/ AddColumn(RandOpt) \/ DropLast
    \/ (exists /\ Reset(Rand(1..Len(cols)), RandOpt, Rand(BOOLEAN)))
    \/ (exists /\ Clear(Rand(1..Len(cols))))

GenSpec == Init /\ [][GenNext]_vars

(* Round trip: for EVERY valid option record (TLC enumerates them as successors of the   *)
(* initial state): create a one-column database with it, reopen with the same record,   *)
(* then with each single field changed (must fail and modify nothing).                  *)
FieldSeq == <<"preimage", "uniform", "rc", "btree", "multitree", "append_only", "direct", "comp">>
RtNext ==
    \/ (step = 0 /\ \E o \in ValidOpts : Create(<<o>>) /\ step' = 1)
    \/ (step = 1 /\ Open(cols) /\ step' = 2)
    \/ (step \in 2..9 /\ LET o2 == Flip(cols[1], FieldSeq[step - 1]) IN
            /\ IF Valid(o2) THEN Open(<<o2>>) ELSE OpenMissing("absent")
            /\ step' = step + 1)
RtSpec == Init /\ [][RtNext]_vars

EmitTrace == TLCGet("level") < GenLen \/ PrintT("REPLAY " \o ToJson(trace))
=============================================================================
