\* C18: 3 actors (1, 2: handles of the harness process; 3: child process), open/commit/drop/die
CONSTANTS
  Actors = {1, 2, 3}
  Child = {3}
  GenLen = 0
SPECIFICATION Spec
VIEW ViewNoTrace
CONSTRAINT Bound
INVARIANTS AtMostOneLive HolderIsLive Reopenable
PROPERTY FailedOpenChangesNothing
CHECK_DEADLOCK FALSE
