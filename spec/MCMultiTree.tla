--------------------------- MODULE MCMultiTree ---------------------------
EXTENDS MultiTree, Json, SequencesExt

L == [new |-> TRUE, kids |-> <<>>]
N(ks) == [new |-> TRUE, kids |-> ks]
E(n) == [new |-> FALSE, ref |-> n]

\* small menu: leaf-less root, one/two new leaves, a new inner node, existing children (also the
\* same node twice, and below a new node)
ShapesSmall(R) ==
    {<<>>, <<L>>, <<N(<<L>>)>>} \cup
    UNION {{<<E(n)>>, <<E(n), E(n)>>, <<L, E(n)>>, <<N(<<E(n)>>)>>} : n \in R}

ShapesTiny(R) == {<<L>>, <<N(<<L>>)>>} \cup {<<E(n)>> : n \in R} \cup {<<L, E(n)>> : n \in R}

ShapesWide(R) ==
    ShapesSmall(R) \cup {<<L, L>>, <<N(<<L, L>>), L>>} \cup
    {<<E(n), E(m)>> : n \in R, m \in R} \cup {<<N(<<E(n)>>), E(n)>> : n \in R}

\* wide sharing (a new tree that shares hundreds of nodes with an older one, as a new trie root does): a tree of three
\* inner nodes with FanWidth new leaves each, and a tree of three new inner nodes that reference those leaves - one
\* transaction then changes 3 * FanWidth reference counts in one log record
FanWidth == 255
FanNew == [i \in 1..FanWidth |-> L]
LeafSeq(R) == SetToSortSeq({n \in R : nkids[n] = <<>>}, LAMBDA a, b : a < b)
\* (the sorted leaf list is bound by a quantifier: an operator or LET definition would be evaluated again at every use)
ShapesFan(R) ==
    {<<N(FanNew), N(FanNew), N(FanNew)>>} \cup
    UNION {IF Len(lv) >= 3 * FanWidth
           THEN {<<N([i \in 1..FanWidth |-> E(lv[i])]), N([i \in 1..FanWidth |-> E(lv[FanWidth + i])]),
                   N([i \in 1..FanWidth |-> E(lv[2 * FanWidth + i])])>>}
           ELSE {} : lv \in {LeafSeq(R)}}

CONSTANT MaxDefers
DeferBound == nextCid <= MaxCommits + MaxDefers + 1

(* ---- generation of behaviours for replay into parity-db (stepping API, Fine = FALSE) ---- *)
VARIABLES obs,
          closing   \* generation only: a clean close is draining the queue (drop_inner / kill_logs)
CONSTANTS GenLen, Pipes, RejW

Proj == [vis |-> [k \in TKeys |-> VisibleRoot(k)], app |-> roots,
         rc |-> nrc, kids |-> nkids, x |-> [x \in XKeys |-> VisibleX(x)],
         entries |-> Entries, ideal |-> ideal, idealX |-> idealX, qlen |-> Len(queue),
         conflict |-> conflict, corrupt |-> corrupt, quiescent |-> Quiescent, wlocked |-> WLocked,
         leaked |-> leaked]

W(p) == RandomElement({j \in 1..100 : ncommits >= 0}) <= p

\* steps that do not change the abstract state: other pipeline stages, clean restart, and
\* transactions the database must reject without a trace
Silent(rec) == hist' = Hist(rec) /\
               UNCHANGED <<roots, nrc, nkids, xs, covlT, covlX, queue, inflight, toDeref, locked, snap,
                           nextId, nextCid, ncommits, nlocks, ideal, idealX, conflictT, conflictX, corrupt,
                           hdrMark, leaked, ncrash, wpend>>
Pipe == inflight = <<>> /\ \E w \in Pipes : Silent([a |-> "Pipe", w |-> w])
Restart == Quiescent /\ locked = {} /\ Silent([a |-> "Restart"])
RejectWide == \E k \in TKeys : ideal[k].rc = 0 /\ k \notin locked /\ VisibleRoot(k).rc = 0 /\
                 \E n \in {256, 300} : Silent([a |-> "Reject", why |-> "wide", k |-> k, n |-> n])
RejectOther == \E k \in TKeys : VisibleRoot(k).rc = 0 /\ ideal[k].rc = 0 /\ k \notin locked /\
                 \E why \in {"deref_missing", "plain_op", "ins_then_bad", "ins_then_wide", "ins_then_deref", "ins_then_deref_absent"} :
                     Silent([a |-> "Reject", why |-> why, k |-> k, n |-> 0])

\* keeps a behaviour going when only probabilistic steps are left
Idle == /\ inflight = <<>>
        /\ \/ (queue = <<>> /\ ncommits = MaxCommits)
           \/ (queue # <<>> /\ Tail(queue) = <<>> /\ MustDefer(Head(queue), <<>>))
        /\ Silent([a |-> "Pipe", w |-> "clean"])

\* Clean close with commits still queued: drop() processes the whole queue (deferring where it must) before it
\* returns, then the database is opened again.  In the model the drain is the ordinary Defer / Process / Pop / Apply
\* steps with nothing else interleaved; the replay performs drop + open at the Close step and compares at Reopen.
CloseBegin == queue # <<>> /\ inflight = <<>> /\ locked = {} /\ Silent([a |-> "Close"])

GenNext ==
    /\ \/ /\ ~closing /\ closing' = FALSE
          /\ \/ (W(IF Len(queue) >= 2 THEN 25 ELSE 70) /\ Commit)
             \/ Idle
             \/ (W(40) /\ \E k \in TKeys : Lock(k))
             \/ (W(40) /\ \E k \in TKeys : Unlock(k))
             \/ Defer \/ Process \/ Pop \/ Apply \/ (W(12) /\ Crash)
             \/ (W(30) /\ Pipe) \/ (W(15) /\ Restart) \/ (W(RejW) /\ RejectWide) \/ (W(RejW) /\ RejectOther)
       \/ (~closing /\ W(20) /\ CloseBegin /\ closing' = TRUE)
       \* (the close whose drain has to defer its first commit: always offered)
       \/ (~closing /\ queue # <<>> /\ MustDefer(Head(queue), Tail(queue)) /\ CloseBegin /\ closing' = TRUE)
       \/ (closing /\ (queue # <<>> \/ inflight # <<>>) /\ (Defer \/ Process \/ Pop \/ Apply) /\ closing' = TRUE)
       \/ (closing /\ queue = <<>> /\ inflight = <<>> /\ Silent([a |-> "Reopen"]) /\ closing' = FALSE)
    /\ obs' = Append(obs, Proj')

(* ---- scripted generation: TLC (breadth first) fills in everything a script leaves open ---- *)
\* A script pins the kind of every step of a behaviour (and the tree key where it matters); TLC enumerates all
\* behaviours of the specification that follow it and emits each with the model's observations.  This reaches
\* situations that random simulation meets too rarely (they need several specific steps in a row).
CONSTANT Script
S(a, t, k, inc) == [a |-> a, t |-> t, k |-> k, inc |-> inc]   \* inc: 0 any, 1 links existing nodes, 2 only new nodes
\* (IF, not disjunction: inside an action TLC explores both sides of a disjunction)
Matches(e, s) ==
    IF e.a # s.a THEN FALSE
    ELSE IF s.a = "Commit"
         THEN IF e.tx.tree.t # s.t THEN FALSE
              ELSE IF s.t = "none" THEN TRUE
              ELSE IF s.k # 0 /\ e.tx.tree.k # s.k THEN FALSE
              ELSE IF s.inc = 0 \/ s.t # "ins" THEN TRUE
              ELSE IF s.inc = 1 THEN e.tx.tree.incs # <<>> ELSE e.tx.tree.incs = <<>>
    ELSE IF s.a \in {"Lock", "Unlock"} THEN e.k = s.k
    ELSE TRUE
ScriptNext ==
    /\ Len(hist) < Len(Script)
    /\ \/ /\ ~closing /\ closing' = FALSE
          /\ \/ Commit \/ (\E k \in TKeys : Lock(k)) \/ (\E k \in TKeys : Unlock(k))
             \/ Defer \/ Process \/ Pop \/ Apply \/ Crash \/ Pipe \/ Restart
       \/ (~closing /\ CloseBegin /\ closing' = TRUE)
       \/ (closing /\ (queue # <<>> \/ inflight # <<>>) /\ (Defer \/ Process \/ Pop \/ Apply) /\ closing' = TRUE)
       \/ (closing /\ queue = <<>> /\ inflight = <<>> /\ Silent([a |-> "Reopen"]) /\ closing' = FALSE)
    /\ Matches(hist'[Len(hist')], Script[Len(hist')])
    /\ obs' = Append(obs, Proj')
ScriptSpec == Init /\ obs = <<>> /\ closing = FALSE /\ [][ScriptNext]_<<vars, obs, closing>>
EmitScript == Len(hist) < Len(Script) \/ PrintT("REPLAY " \o ToJson([steps |-> hist, obs |-> obs]))

ScriptNone == <<>>
\* clean close whose drain has to defer the first queued commit: a dereference of tree 1, queued while a reader held
\* tree 1, followed by an insertion that links nodes of tree 1 (so it is marked as using it); lock released; drop()
ScriptCloseDefer == <<S("Commit", "ins", 1, 2), S("Process", "", 0, 0), S("Lock", "", 1, 0), S("Commit", "deref", 1, 0),
                      S("Commit", "ins", 2, 1), S("Unlock", "", 1, 0), S("Close", "", 0, 0), S("Defer", "", 0, 0),
                      S("Process", "", 0, 0), S("Process", "", 0, 0), S("Reopen", "", 0, 0), S("Commit", "ins", 3, 0),
                      S("Process", "", 0, 0)>>
\* ... with one more commit queued behind them (a plain write or another tree operation)
ScriptCloseDefer2 == <<S("Commit", "ins", 1, 2), S("Process", "", 0, 0), S("Lock", "", 1, 0), S("Commit", "deref", 1, 0),
                       S("Commit", "ins", 2, 1), S("Commit", "none", 0, 0), S("Unlock", "", 1, 0), S("Close", "", 0, 0),
                       S("Defer", "", 0, 0), S("Process", "", 0, 0), S("Process", "", 0, 0), S("Process", "", 0, 0),
                       S("Reopen", "", 0, 0), S("Commit", "deref", 2, 0), S("Process", "", 0, 0)>>

\* counting roots: two dereferences of tree 1 queued, the first processed; a reader locks the tree and inserts a tree
\* that links its nodes; the second dereference must still be deferred (the registry of pending dereferences is a
\* count per tree, not a flag)
ScriptTwoDerefs == <<S("Commit", "ins", 1, 2), S("Commit", "ref", 1, 0), S("Process", "", 0, 0), S("Process", "", 0, 0),
                     S("Commit", "deref", 1, 0), S("Commit", "deref", 1, 0), S("Process", "", 0, 0), S("Lock", "", 1, 0),
                     S("Commit", "ins", 2, 1), S("Unlock", "", 1, 0), S("Defer", "", 0, 0), S("Process", "", 0, 0),
                     S("Process", "", 0, 0), S("Pipe", "", 0, 0), S("Pipe", "", 0, 0), S("Pipe", "", 0, 0)>>

\* an insertion that dereferences tree 1 in the same transaction (Swap) while a reader holds tree 1, with another commit
\* queued behind it: the whole transaction is postponed under a fresh id; until the reader lets go, the tree it inserted
\* must stay readable with all its new nodes; then the dereference completes
ScriptSwapDefer == <<S("Commit", "ins", 1, 2), S("Process", "", 0, 0), S("Lock", "", 1, 0), S("Commit", "ins", 2, 0),
                     S("Commit", "none", 0, 0), S("Defer", "", 0, 0), S("Process", "", 0, 0), S("Pipe", "", 0, 0),
                     S("Unlock", "", 1, 0), S("Process", "", 0, 0), S("Pipe", "", 0, 0)>>
\* ... the postponed transaction alone in the queue (same id, the worker spins), and one with a second deferral
ScriptSwapDefer2 == <<S("Commit", "ins", 1, 2), S("Process", "", 0, 0), S("Lock", "", 1, 0), S("Commit", "ins", 2, 0),
                      S("Commit", "none", 0, 0), S("Defer", "", 0, 0), S("Commit", "ins", 3, 0), S("Process", "", 0, 0),
                      S("Defer", "", 0, 0), S("Process", "", 0, 0), S("Unlock", "", 1, 0), S("Process", "", 0, 0),
                      S("Pipe", "", 0, 0)>>

\* wide sharing (ShapesFan): 765 leaves under tree 1, all of them referenced again by tree 2 in one transaction; applied,
\* restarted (the clean close applies everything); then both trees dereferenced - counts and storage are compared at every restart
ScriptFan == <<S("Commit", "ins", 1, 2), S("Process", "", 0, 0), S("Commit", "ins", 2, 1), S("Process", "", 0, 0),
               S("Restart", "", 0, 0), S("Commit", "deref", 1, 0), S("Process", "", 0, 0), S("Restart", "", 0, 0),
               S("Commit", "deref", 2, 0), S("Process", "", 0, 0), S("Restart", "", 0, 0)>>

\* exhaustive checking: the observation history stays empty
MCSpec == Init /\ obs = <<>> /\ closing = FALSE /\ [][Next /\ UNCHANGED <<obs, closing>>]_<<vars, obs, closing>>

GenSpec == Init /\ obs = <<>> /\ closing = FALSE /\ [][GenNext]_<<vars, obs, closing>>
EmitTrace == TLCGet("level") < GenLen \/ PrintT("REPLAY " \o ToJson([steps |-> hist, obs |-> obs]))
=============================================================================
