--------------------------- MODULE MCMultiTree ---------------------------
EXTENDS MultiTree, Json

L == [new |-> TRUE, kids |-> <<>>]
N(ks) == [new |-> TRUE, kids |-> ks]
E(n) == [new |-> FALSE, ref |-> n]

\* small menu: leaf-less root, one/two new leaves, a new inner node, existing children (also the
\* same node twice, and below a new node)
ShapesSmall(R) ==
    {<<>>, <<L>>, <<N(<<L>>)>>} \cup
    UNION {{<<E(n)>>, <<E(n), E(n)>>, <<L, E(n)>>, <<N(<<E(n)>>)>>} : n \in R}

ShapesTiny(R) == {<<L>>, <<N(<<L>>)>>} \cup {<<E(n)>> : n \in R} \cup {<<L, E(n)>> : n \in R}

ShapesWide(R) ==
    ShapesSmall(R) \cup {<<L, L>>, <<N(<<L, L>>), L>>} \cup
    {<<E(n), E(m)>> : n \in R, m \in R} \cup {<<N(<<E(n)>>), E(n)>> : n \in R}
=============================================================================
