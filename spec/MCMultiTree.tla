--------------------------- MODULE MCMultiTree ---------------------------
EXTENDS MultiTree, Json

L == [new |-> TRUE, kids |-> <<>>]
N(ks) == [new |-> TRUE, kids |-> ks]
E(n) == [new |-> FALSE, ref |-> n]

\* small menu: leaf-less root, one/two new leaves, a new inner node, existing children (also the
\* same node twice, and below a new node)
ShapesSmall(R) ==
    {<<>>, <<L>>, <<N(<<L>>)>>} \cup
    UNION {{<<E(n)>>, <<E(n), E(n)>>, <<L, E(n)>>, <<N(<<E(n)>>)>>} : n \in R}

ShapesTiny(R) == {<<L>>, <<N(<<L>>)>>} \cup {<<E(n)>> : n \in R} \cup {<<L, E(n)>> : n \in R}

ShapesWide(R) ==
    ShapesSmall(R) \cup {<<L, L>>, <<N(<<L, L>>), L>>} \cup
    {<<E(n), E(m)>> : n \in R, m \in R} \cup {<<N(<<E(n)>>), E(n)>> : n \in R}

CONSTANT MaxDefers
DeferBound == nextCid <= MaxCommits + MaxDefers + 1

(* ---- generation of behaviours for replay into parity-db (stepping API, Fine = FALSE) ---- *)
VARIABLE obs
CONSTANTS GenLen, Pipes, RejW

Proj == [vis |-> [k \in TKeys |-> VisibleRoot(k)], app |-> roots,
         rc |-> nrc, kids |-> nkids, x |-> [x \in XKeys |-> VisibleX(x)],
         entries |-> Entries, ideal |-> ideal, idealX |-> idealX, qlen |-> Len(queue),
         conflict |-> conflict, corrupt |-> corrupt, quiescent |-> Quiescent, wlocked |-> WLocked,
         leaked |-> leaked]

W(p) == RandomElement({j \in 1..100 : ncommits >= 0}) <= p

\* steps that do not change the abstract state: other pipeline stages, clean restart, and
\* transactions the database must reject without a trace
Silent(rec) == hist' = Hist(rec) /\
               UNCHANGED <<roots, nrc, nkids, xs, covlT, covlX, queue, inflight, toDeref, locked, snap,
                           nextId, nextCid, ncommits, nlocks, ideal, idealX, conflictT, conflictX, corrupt,
                           hdrMark, leaked, ncrash, wpend>>
Pipe == inflight = <<>> /\ \E w \in Pipes : Silent([a |-> "Pipe", w |-> w])
Restart == Quiescent /\ locked = {} /\ Silent([a |-> "Restart"])
RejectWide == \E k \in TKeys : ideal[k].rc = 0 /\ k \notin locked /\ VisibleRoot(k).rc = 0 /\
                 \E n \in {256, 300} : Silent([a |-> "Reject", why |-> "wide", k |-> k, n |-> n])
RejectOther == \E k \in TKeys : VisibleRoot(k).rc = 0 /\ ideal[k].rc = 0 /\ k \notin locked /\
                 \E why \in {"deref_missing", "plain_op", "ins_then_bad", "ins_then_wide"} :
                     Silent([a |-> "Reject", why |-> why, k |-> k, n |-> 0])

\* keeps a behaviour going when only probabilistic steps are left
Idle == /\ inflight = <<>>
        /\ \/ (queue = <<>> /\ ncommits = MaxCommits)
           \/ (queue # <<>> /\ Tail(queue) = <<>> /\ MustDefer(Head(queue), <<>>))
        /\ Silent([a |-> "Pipe", w |-> "clean"])

GenNext ==
    /\ \/ (W(IF Len(queue) >= 2 THEN 25 ELSE 70) /\ Commit)
       \/ Idle
       \/ (W(40) /\ \E k \in TKeys : Lock(k))
       \/ (W(40) /\ \E k \in TKeys : Unlock(k))
       \/ Defer \/ Process \/ Pop \/ Apply \/ (W(12) /\ Crash)
       \/ (W(30) /\ Pipe) \/ (W(15) /\ Restart) \/ (W(RejW) /\ RejectWide) \/ (W(RejW) /\ RejectOther)
    /\ obs' = Append(obs, Proj')

\* exhaustive checking: the observation history stays empty
MCSpec == Init /\ obs = <<>> /\ [][Next /\ UNCHANGED obs]_<<vars, obs>>

GenSpec == Init /\ obs = <<>> /\ [][GenNext]_<<vars, obs>>
EmitTrace == TLCGet("level") < GenLen \/ PrintT("REPLAY " \o ToJson([steps |-> hist, obs |-> obs]))
=============================================================================
