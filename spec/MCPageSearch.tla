---------------------------- MODULE MCPageSearch ----------------------------
EXTENDS PageSearch
E(h, l) == [hi |-> h, lo |-> l, addr |-> 1]
\* empty; two entries with equal compared bits and different dropped bits; zero compared bits
Dom4 == {Empty, E(1, 0), E(1, 1), E(0, 1)}
Dom5 == Dom4 \cup {E(2, 0)}
Keys4 == {[hi |-> 1, lo |-> 0], [hi |-> 1, lo |-> 1], [hi |-> 0, lo |-> 1], [hi |-> 2, lo |-> 0]}
=============================================================================
