\* C20: every source history of <= 3 operations over 2 keys x all option pairs x overwrite / forced selection
CONSTANTS
  NCols = 1
  NKeys = 2
  MaxOps = 3
  GenLen = 0
SPECIFICATION Spec
VIEW ViewNoTrace
INVARIANTS NoKeyLost CountsCarryOver SourceKept
CHECK_DEADLOCK FALSE
