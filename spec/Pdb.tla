-------------------------------- MODULE Pdb --------------------------------
(***************************************************************************)
(* Logical write pipeline of parity-db (src/db.rs, src/log.rs).            *)
(*                                                                         *)
(*  client        log worker            flush worker   commit worker       *)
(*  Commit  --->  Pop/Plan, EndRecord,  FlushLog  ---> EnactBegin,         *)
(*  (covl)        CleanCovl (lovl)                     EnactWrite*,        *)
(*                                                     EnactEnd, EndRead   *)
(*                                      cleanup worker: Clean (msync +     *)
(*                                                      truncate logs)     *)
(*                                                                         *)
(* State layers, newest first: commit overlay `covl`, log overlay `lovl`,  *)
(* tables `tabs` (page cache image) / `dtabs` (image at last msync), and   *)
(* the write-ahead log files `logs`.  A log record is a set of absolute    *)
(* after-images.  Column kinds differ in how an operation maps to an       *)
(* after-image and in what the commit overlay mirrors.                     *)
(*                                                                         *)
(* One action per critical section of the code; when Fine = FALSE the      *)
(* worker sub-steps are fused into the granularity of the stepping API     *)
(* (process_commits / flush_logs / enact one record / clean_logs).         *)
(***************************************************************************)
EXTENDS Naturals, Sequences, FiniteSets, TLC

CONSTANTS
    NCols,      \* columns are 1..NCols
    Kind,       \* Kind[c] \in {"hash","hashp","rc","btree","btree_rc"} (hashp: preimage, value fixed by key)
    NKeys,      \* keys are 1..NKeys (ranks in the run's key universe)
    NVals,      \* values are 1..NVals
    MaxCalls,   \* bound on commit calls (accepted + rejected)
    MaxOps,     \* bound on operations per transaction
    MaxCrash,   \* bound on crashes / power losses
    MaxAux,     \* bound on auxiliary (reindex) records and corruptions
    Fine,       \* TRUE: worker sub-steps are separate actions
    Gen,        \* TRUE: history variable `trace` records steps + observations
    Feat,       \* enabled action groups: subset of
                \*  {"restart","reject","crash","crashrec","power","aux","iofail","corrupt"}
    SyncWal,    \* options.sync_wal
    SyncData,   \* options.sync_data
    InitRid,    \* first log record id / last commit id of the session (1 / 0 on a fresh handle; traces
    InitCid,    \*   recorded after an index-growth preamble start later)
    Mut         \* set of deliberately broken rules (necessity configs); {} = the real design

VARIABLES
    hist,       \* accepted transactions, in the order commit returned
    logical,    \* = StateAfter(hist, Len(hist)), maintained incrementally (redundant)
    calls,      \* number of commit calls made
    queue,      \* commit queue: Seq of [cid, h, tx]
    nextCid,    \* CommitQueue.record_id
    covl,       \* commit overlay: [Loc -> [cid, v]] (cid = 0: no entry; v = 0: removed)
    lw,         \* log worker: [pc, cid, tx, rec]
    nextRid,    \* Log.next_record_id
    logs,       \* log files on disk, oldest first: Seq of [recs, st, partial, syn, id]
    pool,       \* ids of truncated log files waiting for reuse (log.rs log_pool, lowest id first)
    nextLogId,  \* Log.next_log_id
    rpos,       \* records already enacted from the file in state "rd"
    lovl,       \* log overlay: [Loc -> [rid, e]] (rid = 0: no entry)
    cw,         \* commit worker: [pc, rec, todo]
    lastEnacted,
    tabs,       \* tables as the process sees them (page cache)
    dtabs,      \* tables as of the last msync (what power loss falls back to)
    flushedCq,  \* number of "cq" files whose table changes are all in dtabs
    applied,    \* ghost: highest history index whose record was applied to tabs
    durable,    \* number of commits (prefix of hist) whose record was synced / flushed
    mode,       \* "open" | "crashed" | "recovering" | "err"
    rcv,        \* recovery cursor: [f, r, any]
    ncrash,     \* crashes so far
    naux,       \* auxiliary records / corruptions so far
    lastRec,    \* result of the last completed recovery: [n, lo, ok]
    rdr,        \* a concurrent reader in the middle of a lookup: [pc, loc, seen, got]
    cur,        \* an open btree iterator: [open, c, t, k] (position Start | End | At(k) | Seeked(k))
    trace,      \* history of steps (only when Gen)
    cov         \* coverage tags hit by this behaviour (directed generation; follows `trace`)

vars == <<hist, logical, calls, queue, nextCid, covl, lw, nextRid, logs, pool, nextLogId, rpos, lovl, cw,
          lastEnacted, tabs, dtabs, flushedCq, applied, durable, mode, rcv, ncrash, naux,
          lastRec, rdr, cur, trace, cov>>

----------------------------------------------------------------------------
(* Data *)

Cols == 1..NCols
Keys == 1..NKeys
Loc  == Cols \X Keys
IsRc(c) == Kind[c] \in {"rc", "btree_rc"}
FixedVal(c) == Kind[c] \in {"rc", "btree_rc", "hashp"}

Absent == [v |-> 0, rc |-> 0]
Present(e) == e.rc > 0
Vis(e) == IF Present(e) THEN e.v ELSE 0      \* what a read shows: 0 = nothing

OpT == {"set", "del", "ref"}
Ops == [c : Cols, k : Keys, t : OpT, v : 0..NVals]

\* Rc (preimage) columns: the value is a function of the key; the model uses v = 1.
WellFormedOp(op) ==
    /\ (op.t = "set") => (op.v \in (IF FixedVal(op.c) THEN {1} ELSE 1..NVals))
    /\ (op.t # "set") => (op.v = 0)

ValidOp(op) == (op.t = "ref") => IsRc(op.c)
ValidTx(tx) == \A i \in 1..Len(tx) : ValidOp(tx[i])

Txs == UNION { [1..n -> {op \in Ops : WellFormedOp(op)}] : n \in 1..MaxOps }

ApplyOp(e, op) ==
    IF IsRc(op.c)
    THEN CASE op.t = "set" -> IF Present(e) THEN [e EXCEPT !.rc = e.rc + 1]
                                            ELSE [v |-> op.v, rc |-> 1]
           [] op.t = "ref" -> IF Present(e) THEN [e EXCEPT !.rc = e.rc + 1] ELSE e
           [] op.t = "del" -> IF e.rc > 1 THEN [e EXCEPT !.rc = e.rc - 1] ELSE Absent
    ELSE CASE op.t = "set" -> [v |-> op.v, rc |-> 1]
           [] op.t = "del" -> Absent
           [] OTHER        -> e

RECURSIVE ApplyOps(_, _, _)
ApplyOps(s, tx, i) ==
    IF i > Len(tx) THEN s
    ELSE ApplyOps([s EXCEPT ![<<tx[i].c, tx[i].k>>] = ApplyOp(@, tx[i])], tx, i + 1)
ApplyTx(s, tx) == ApplyOps(s, tx, 1)

Empty == [l \in Loc |-> Absent]

RECURSIVE StateAfter(_, _)
StateAfter(h, n) == IF n = 0 THEN Empty ELSE ApplyTx(StateAfter(h, n - 1), h[n])

Logical == logical

Touched(tx) == { <<tx[i].c, tx[i].k>> : i \in 1..Len(tx) }

NoCovl == [cid |-> 0, v |-> 0]
NoLovl == [rid |-> 0, e |-> Absent]

\* What planning and reads below the commit overlay see.
ViewOf(lo, tb) == [l \in Loc |-> IF lo[l].rid # 0 THEN lo[l].e ELSE tb[l]]
View == ViewOf(lovl, tabs)

\* A point read (db.rs DbInner::get): commit overlay, then log overlay, then tables.
Get(l) == IF covl[l].cid # 0 THEN covl[l].v ELSE Vis(View[l])
Obs == [c \in Cols |-> [k \in Keys |-> Get(<<c, k>>)]]

\* commit_raw / copy_to_overlay: ops mirrored in order; rc columns mirror only Set.
RECURSIVE CovlAdd(_, _, _, _)
CovlAdd(cv, cid, tx, i) ==
    IF i > Len(tx) THEN cv
    ELSE LET op == tx[i]  l == <<op.c, op.k>> IN
         CovlAdd( IF op.t = "set" THEN [cv EXCEPT ![l] = [cid |-> cid, v |-> op.v]]
                  ELSE IF op.t = "del" /\ ~IsRc(op.c) THEN [cv EXCEPT ![l] = [cid |-> cid, v |-> 0]]
                  ELSE cv, cid, tx, i + 1)

\* clean_overlay: entries removed only if still tagged with the finishing commit id.
CovlClean(cv, cid, tx) ==
    [l \in Loc |-> IF l \in Touched(tx) /\ (cv[l].cid = cid \/ "covl_no_cid" \in Mut) THEN NoCovl ELSE cv[l]]

\* write_plan: the record of a commit = after-images of the touched locations,
\* computed by applying the ops in order to the current view.
PlanRec(rid, h, cid, tx, view) ==
    LET s == ApplyTx(view, tx) IN
    [rid |-> rid, h |-> h, cid |-> cid, w |-> [l \in Touched(tx) |-> s[l]]]

LovlAdd(lo, rec) ==
    [l \in Loc |-> IF l \in DOMAIN rec.w THEN [rid |-> rec.rid, e |-> rec.w[l]] ELSE lo[l]]

\* end_read: entries removed only if still tagged with the enacted record id.
LovlClean(lo, rec) ==
    [l \in Loc |-> IF l \in DOMAIN rec.w /\ (lo[l].rid = rec.rid \/ "lovl_no_rid" \in Mut) THEN NoLovl ELSE lo[l]]

TabsApply(tb, rec) == [l \in Loc |-> IF l \in DOMAIN rec.w THEN rec.w[l] ELSE tb[l]]

RECURSIVE TabsApplyAll(_, _, _)
TabsApplyAll(tb, recs, i) ==
    IF i > Len(recs) THEN tb ELSE TabsApplyAll(TabsApply(tb, recs[i]), recs, i + 1)

Max(a, b) == IF a > b THEN a ELSE b
Min(a, b) == IF a < b THEN a ELSE b

RECURSIVE MaxH(_, _)
MaxH(recs, i) == IF i > Len(recs) THEN 0 ELSE Max(recs[i].h, MaxH(recs, i + 1))

NoCur == [open |-> FALSE, c |-> 0, t |-> "start", k |-> 0]
Idle == [pc |-> "idle"]
LwIdle == lw.pc = "idle"
CwIdle == cw.pc = "idle"

FileIdx(st) == { i \in 1..Len(logs) : logs[i].st = st }
HasApp == Len(logs) > 0 /\ logs[Len(logs)].st = "app"
MinOf(S) == CHOOSE x \in S : \A y \in S : x <= y
MaxOf(S) == CHOOSE x \in S : \A y \in S : x >= y
NumCq == Cardinality(FileIdx("cq"))
\* (coverage) a recycled low-numbered file holds newer records than a higher-numbered one
IdInversion == \E i, j \in 1..Len(logs) : i < j /\ logs[i].id > logs[j].id

----------------------------------------------------------------------------
(* History variable *)

\* Entries carry, when crashes are modelled, the recovery bounds valid for a crash image
\* taken during the step: lo = commits already durable before it, alts[n+1] = the state
\* after the first n transactions (full entries [v, rc]).
EntState(s) == [c \in Cols |-> [k \in Keys |-> s[<<c, k>>]]]
Alts(h) == [n \in 1..Len(h) + 1 |-> EntState(StateAfter(h, n - 1))]
WithBounds == Feat \cap {"crash", "power", "iofail", "corrupt"} # {}
\* cnt = the full entries ([v, rc]) when the pipeline is completely drained (value iteration
\* of a reference-counted hash column must then report exactly these counts), else <<>>.
Drained == queue = <<>> /\ lw.pc = "idle" /\ cw.pc = "idle" /\ mode = "open"
           /\ \A i \in 1..Len(logs) : logs[i].st = "cq"
\* coverage tags: situations the conformance runs should reach (used to direct generation)
CqInversion == \E i, j \in 1..Len(logs) : i < j /\ logs[i].st = "cq" /\ logs[j].st = "cq" /\ logs[i].id > logs[j].id
\* records already applied to the tables whose log files are still there (recovery replays them again)
RECURSIVE AppliedInFiles(_)
AppliedInFiles(i) == IF i > Len(logs) THEN 0
                     ELSE Cardinality({j \in 1..Len(logs[i].recs) : logs[i].recs[j].h <= applied}) + AppliedInFiles(i + 1)
CovOf(e) ==
    (IF e.a = "Crash" /\ IdInversion THEN {"crash_recycled"} ELSE {}) \cup
    (IF e.a = "Crash" /\ AppliedInFiles(1) >= 2 /\ durable > applied THEN {"crash_2applied_1synced"} ELSE {}) \cup
    (IF e.a = "Crash" /\ Len(logs) >= 3 THEN {"crash_3files"} ELSE {}) \cup
    (IF e.a = "IoFailOther" /\ CqInversion THEN {"iofail_cq_recycled"} ELSE {}) \cup
    (IF e.a = "IoFailOther" /\ NumCq >= 2 THEN {"iofail_2cq"} ELSE {}) \cup
    (IF e.a = "CloseOpen" /\ Len(logs) >= 4 THEN {"close_4files"} ELSE {}) \cup
    (IF e.a = "CloseOpen" /\ IdInversion THEN {"close_recycled"} ELSE {})
Log(e) == /\ trace' = IF ~Gen THEN trace
                     ELSE LET e2 == e @@ [cnt |-> IF Drained' THEN EntState(logical') ELSE <<>>] IN
                          IF WithBounds THEN Append(trace, e2 @@ [lo |-> durable, alts |-> Alts(hist')])
                          ELSE Append(trace, e2)
          /\ cov' = IF Gen THEN cov \cup CovOf(e) ELSE cov
NoLog  == UNCHANGED <<trace, cov>>

----------------------------------------------------------------------------
Init ==
    /\ hist = <<>> /\ logical = Empty /\ calls = 0 /\ queue = <<>> /\ nextCid = InitCid
    /\ covl = [l \in Loc |-> NoCovl]
    /\ lw = Idle /\ nextRid = InitRid /\ logs = <<>> /\ pool = {} /\ nextLogId = 0 /\ rpos = 0
    /\ lovl = [l \in Loc |-> NoLovl]
    /\ cw = Idle /\ lastEnacted = 1
    /\ tabs = Empty /\ dtabs = Empty /\ flushedCq = 0 /\ applied = 0 /\ durable = 0
    /\ mode = "open" /\ rcv = [f |-> 0, r |-> 0, any |-> FALSE, pre |-> 0, dmg |-> "none"]
    /\ ncrash = 0 /\ naux = 0
    /\ lastRec = [n |-> 0, lo |-> 0, ok |-> TRUE, pre |-> 0]
    /\ rdr = [pc |-> "idle"]
    /\ cur = NoCur
    /\ trace = <<>> /\ cov = {}

----------------------------------------------------------------------------
(* A concurrent reader (db.rs DbInner::get).  The commit-overlay read lock is held for the
   whole lookup; below it the log overlay and the tables are consulted one after the
   other, each under its own short lock, while the workers keep moving data. *)

CovlReadLocked == rdr.pc \in {"lovl", "tabs"}

OthersUnchanged == UNCHANGED <<hist, logical, calls, queue, nextCid, covl, lw, nextRid, logs, pool, nextLogId, rpos, lovl,
                               cw, lastEnacted, tabs, dtabs, flushedCq, applied, durable, mode, rcv, ncrash,
                               naux, lastRec, cur, trace, cov>>

RStart(l) ==
    /\ "reader" \in Feat /\ mode = "open" /\ rdr.pc = "idle"
    /\ rdr' = IF covl[l].cid # 0
              THEN [pc |-> "done", loc |-> l, seen |-> {Vis(logical[l])}, got |-> covl[l].v]
              ELSE [pc |-> "lovl", loc |-> l, seen |-> {Vis(logical[l])}, got |-> 0]
    /\ OthersUnchanged

RLovl ==
    /\ rdr.pc = "lovl"
    /\ rdr' = IF lovl[rdr.loc].rid # 0
              THEN [rdr EXCEPT !.pc = "done", !.got = Vis(lovl[rdr.loc].e)]
              ELSE [rdr EXCEPT !.pc = "tabs"]
    /\ OthersUnchanged

RTabs ==
    /\ rdr.pc = "tabs"
    /\ rdr' = [rdr EXCEPT !.pc = "done", !.got = Vis(tabs[rdr.loc])]
    /\ OthersUnchanged

RFinish ==
    /\ rdr.pc = "done"
    /\ rdr' = [pc |-> "idle"]
    /\ OthersUnchanged

----------------------------------------------------------------------------
(* Client *)

\* db.rs commit_raw: under the queue mutex and the covl write lock.
Commit(tx) ==
    /\ mode = "open" /\ calls < MaxCalls /\ ValidTx(tx) /\ ~CovlReadLocked
    /\ calls' = calls + 1
    /\ nextCid' = nextCid + 1
    /\ hist' = Append(hist, tx)
    /\ logical' = ApplyTx(logical, tx)
    /\ rdr' = IF rdr.pc = "idle" THEN rdr
              ELSE [rdr EXCEPT !.seen = @ \cup {Vis(ApplyTx(logical, tx)[rdr.loc])}]
    /\ UNCHANGED cur
    /\ queue' = Append(queue, [cid |-> nextCid + 1, h |-> Len(hist) + 1, tx |-> tx])
    /\ covl' = CovlAdd(covl, nextCid + 1, tx, 1)
    /\ UNCHANGED <<lw, nextRid, logs, pool, nextLogId, rpos, lovl, cw, lastEnacted, tabs, dtabs,
                   flushedCq, applied, durable, mode, rcv, ncrash, naux, lastRec>>
    /\ Log([a |-> "Commit", tx |-> tx, ok |-> TRUE, obs |-> Obs'])

\* A commit call that returns an error changes nothing (C08).
Reject(tx) ==
    /\ "reject" \in Feat
    /\ mode \in {"open", "err"} /\ calls < MaxCalls
    /\ (mode = "open") => ~ValidTx(tx)
    /\ calls' = calls + 1
    /\ UNCHANGED <<hist, logical, queue, nextCid, covl, lw, nextRid, logs, pool, nextLogId, rpos, lovl, cw,
                   lastEnacted, tabs, dtabs, flushedCq, applied, durable, mode, rcv, ncrash,
                   naux, lastRec, rdr, cur>>
    /\ Log([a |-> "Commit", tx |-> tx, ok |-> FALSE, obs |-> Obs'])

----------------------------------------------------------------------------
(* Log worker: process_commits *)

AppendRec(rec) ==
    IF HasApp THEN [logs EXCEPT ![Len(logs)].recs = Append(@, rec)]
    ELSE Append(logs, [recs |-> <<rec>>, st |-> "app", partial |-> FALSE, syn |-> FALSE,
                       id |-> IF pool # {} THEN MinOf(pool) ELSE nextLogId])
\* log.rs end_record: "Find a log file in the pool or create a new one"
AppendPool ==
    IF HasApp THEN UNCHANGED <<pool, nextLogId>>
    ELSE IF pool # {} THEN pool' = pool \ {MinOf(pool)} /\ UNCHANGED nextLogId
    ELSE nextLogId' = nextLogId + 1 /\ UNCHANGED pool
KeepPool == UNCHANGED <<pool, nextLogId>>

\* pop the queue head and plan its record against lovl + tables
PopAndPlan ==
    /\ mode = "open" /\ Fine /\ LwIdle /\ queue # <<>>
    /\ LET c == Head(queue) IN
       /\ lw' = [pc |-> "planned", cid |-> c.cid, tx |-> c.tx,
                 rec |-> PlanRec(nextRid, c.h, c.cid, c.tx, View)]
       /\ queue' = Tail(queue)
       /\ nextRid' = nextRid + 1
    /\ UNCHANGED <<hist, logical, calls, nextCid, covl, logs, pool, nextLogId, rpos, lovl, cw, lastEnacted, tabs,
                   dtabs, flushedCq, applied, durable, mode, rcv, ncrash, naux, lastRec, rdr, cur>>
    /\ NoLog

\* log.rs end_record: append to the log file and publish into lovl (one write lock)
EndRecord ==
    /\ mode = "open" /\ Fine
    /\ lw.pc = (IF "clean_covl_first" \in Mut THEN "cleaned" ELSE "planned")
    /\ logs' = AppendRec(lw.rec)
    /\ AppendPool
    /\ lovl' = LovlAdd(lovl, lw.rec)
    /\ lw' = IF "clean_covl_first" \in Mut THEN Idle ELSE [lw EXCEPT !.pc = "ended"]
    /\ UNCHANGED <<hist, logical, calls, queue, nextCid, covl, nextRid, rpos, cw, lastEnacted,
                   tabs, dtabs, flushedCq, applied, durable, mode, rcv, ncrash, naux, lastRec, rdr, cur>>
    /\ NoLog

\* the overlay entries of the commit are dropped only after lovl holds them
CleanCovl ==
    /\ mode = "open" /\ Fine /\ ~CovlReadLocked
    /\ lw.pc = (IF "clean_covl_first" \in Mut THEN "planned" ELSE "ended")
    /\ covl' = CovlClean(covl, lw.cid, lw.tx)
    /\ lw' = IF "clean_covl_first" \in Mut THEN [lw EXCEPT !.pc = "cleaned"] ELSE Idle
    /\ UNCHANGED <<hist, logical, calls, queue, nextCid, nextRid, logs, pool, nextLogId, rpos, lovl, cw,
                   lastEnacted, tabs, dtabs, flushedCq, applied, durable, mode, rcv, ncrash,
                   naux, lastRec, rdr, cur>>
    /\ NoLog

\* stepping API: Db::process_commits() = the three steps above, uninterrupted
ProcessCommit ==
    /\ mode = "open" /\ ~Fine /\ queue # <<>>
    /\ LET c == Head(queue)
           rec == PlanRec(nextRid, c.h, c.cid, c.tx, View) IN
       /\ queue' = Tail(queue)
       /\ nextRid' = nextRid + 1
       /\ logs' = AppendRec(rec)
       /\ AppendPool
       /\ lovl' = LovlAdd(lovl, rec)
       /\ covl' = CovlClean(covl, c.cid, c.tx)
    /\ UNCHANGED <<hist, logical, calls, nextCid, lw, rpos, cw, lastEnacted, tabs, dtabs,
                   flushedCq, applied, durable, mode, rcv, ncrash, naux, lastRec, rdr, cur>>
    /\ Log([a |-> "ProcessCommit", obs |-> Obs'])

\* A record that originates inside the database (reindex batch): consumes a record id,
\* carries no logical change.  (The physical content is Storage.tla's business.)
AuxRecord ==
    /\ "aux" \in Feat /\ mode = "open" /\ LwIdle /\ naux < MaxAux
    /\ naux' = naux + 1
    /\ nextRid' = nextRid + 1
    /\ logs' = AppendRec([rid |-> nextRid, h |-> 0, cid |-> 0, w |-> <<>>])
    /\ AppendPool
    /\ UNCHANGED <<hist, logical, calls, queue, nextCid, covl, lw, rpos, lovl, cw, lastEnacted,
                   tabs, dtabs, flushedCq, applied, durable, mode, rcv, ncrash, lastRec, rdr, cur>>
    /\ Log([a |-> "AuxRecord", obs |-> Obs'])

----------------------------------------------------------------------------
(* Flush worker: log.rs flush_one *)

\* (the flush worker may take the appending file while the log worker is between the
\* steps of a commit: end_record then starts a new file)
FlushLog ==
    /\ mode = "open" /\ HasApp
    /\ logs' = [logs EXCEPT ![Len(logs)].st = "rq", ![Len(logs)].syn = SyncWal]
    /\ KeepPool
    /\ durable' = IF SyncWal THEN Max(durable, MaxH(logs[Len(logs)].recs, 1)) ELSE durable
    /\ UNCHANGED applied
    /\ UNCHANGED <<hist, logical, calls, queue, nextCid, covl, lw, nextRid, rpos, lovl, cw,
                   lastEnacted, tabs, dtabs, flushedCq, mode, rcv, ncrash, naux, lastRec, rdr, cur>>
    /\ Log([a |-> "FlushLog", obs |-> Obs'])

----------------------------------------------------------------------------
(* Commit worker: enact_logs(false) *)

Rd == FileIdx("rd")
Rq == FileIdx("rq") \cup (IF "enact_unsynced" \in Mut THEN FileIdx("app") ELSE {})

\* the record the next enact_logs call will read, and the file it is in
NextToEnact ==
    IF Rd # {} THEN LET f == MinOf(Rd) IN
                    IF rpos < Len(logs[f].recs) THEN [f |-> f, r |-> rpos + 1] ELSE [f |-> f, r |-> 0]
    ELSE IF Rq # {} THEN [f |-> MinOf(Rq), r |-> 1]
    ELSE [f |-> 0, r |-> 0]

\* read_next hits end of file: the file moves to the cleanup queue
LogEof ==
    /\ mode = "open" /\ CwIdle /\ Rd # {}
    /\ LET f == MinOf(Rd) IN
       /\ rpos = Len(logs[f].recs)
       /\ logs' = [logs EXCEPT ![f].st = "cq"]
       /\ KeepPool
    /\ rpos' = 0
    /\ UNCHANGED <<hist, logical, calls, queue, nextCid, covl, lw, nextRid, lovl, cw, lastEnacted,
                   tabs, dtabs, flushedCq, applied, durable, mode, rcv, ncrash, naux, lastRec, rdr, cur>>
    /\ Log([a |-> "EnactOne", obs |-> Obs'])

EnactBegin ==
    /\ mode = "open" /\ Fine /\ CwIdle
    /\ LET n == NextToEnact IN
       /\ n.r # 0
       /\ cw' = [pc |-> "writing", rec |-> logs[n.f].recs[n.r],
                 todo |-> DOMAIN logs[n.f].recs[n.r].w]
       /\ logs' = IF logs[n.f].st \in {"rq", "app"} THEN [logs EXCEPT ![n.f].st = "rd"] ELSE logs
       /\ KeepPool
       /\ rpos' = n.r - 1
       /\ lovl' = IF "endread_first" \in Mut THEN LovlClean(lovl, logs[n.f].recs[n.r]) ELSE lovl
    /\ UNCHANGED <<hist, logical, calls, queue, nextCid, covl, lw, nextRid, lastEnacted,
                   tabs, dtabs, flushedCq, applied, durable, mode, rcv, ncrash, naux, lastRec, rdr, cur>>
    /\ NoLog

EnactWrite(l) ==
    /\ mode = "open" /\ Fine /\ cw.pc = "writing" /\ l \in cw.todo
    /\ tabs' = [tabs EXCEPT ![l] = cw.rec.w[l]]
    /\ cw' = [cw EXCEPT !.todo = @ \ {l}]
    /\ UNCHANGED <<hist, logical, calls, queue, nextCid, covl, lw, nextRid, logs, pool, nextLogId, rpos, lovl,
                   lastEnacted, dtabs, flushedCq, applied, durable, mode, rcv, ncrash, naux, lastRec, rdr, cur>>
    /\ NoLog

EnactEnd ==
    /\ mode = "open" /\ Fine /\ cw.pc = "writing" /\ cw.todo = {}
    /\ lastEnacted' = cw.rec.rid
    /\ applied' = Max(applied, cw.rec.h)
    /\ cw' = [cw EXCEPT !.pc = "written"]
    /\ UNCHANGED <<hist, logical, calls, queue, nextCid, covl, lw, nextRid, logs, pool, nextLogId, rpos, lovl,
                   tabs, dtabs, flushedCq, durable, mode, rcv, ncrash, naux, lastRec, rdr, cur>>
    /\ NoLog

\* log.rs end_read: lovl entries dropped only after the tables hold them
EndRead ==
    /\ mode = "open" /\ Fine /\ cw.pc = "written"
    /\ lovl' = LovlClean(lovl, cw.rec)
    /\ rpos' = rpos + 1
    /\ cw' = Idle
    /\ UNCHANGED <<hist, logical, calls, queue, nextCid, covl, lw, nextRid, logs, pool, nextLogId, lastEnacted,
                   tabs, dtabs, flushedCq, applied, durable, mode, rcv, ncrash, naux, lastRec, rdr, cur>>
    /\ NoLog

\* stepping API: one enact_logs(false) call that finds a record
EnactOne ==
    /\ mode = "open" /\ ~Fine
    /\ LET n == NextToEnact IN
       /\ n.r # 0
       /\ LET rec == logs[n.f].recs[n.r] IN
          /\ tabs' = TabsApply(tabs, rec)
          /\ lovl' = LovlClean(lovl, rec)
          /\ lastEnacted' = rec.rid
          /\ applied' = Max(applied, rec.h)
       /\ logs' = IF logs[n.f].st \in {"rq", "app"} THEN [logs EXCEPT ![n.f].st = "rd"] ELSE logs
       /\ KeepPool
       /\ rpos' = n.r
    /\ UNCHANGED <<hist, logical, calls, queue, nextCid, covl, lw, nextRid, cw, dtabs, flushedCq,
                   durable, mode, rcv, ncrash, naux, lastRec, rdr, cur>>
    /\ Log([a |-> "EnactOne", obs |-> Obs'])

----------------------------------------------------------------------------
(* Cleanup worker: clean_logs = msync every table, then truncate the dirty logs *)

\* db.rs clean_logs, first half: c.flush() for every column
FlushTables ==
    /\ mode = "open" /\ Fine /\ NumCq > flushedCq
    /\ dtabs' = tabs
    /\ flushedCq' = NumCq
    /\ UNCHANGED <<hist, logical, calls, queue, nextCid, covl, lw, nextRid, logs, pool, nextLogId, rpos, lovl, cw,
                   lastEnacted, tabs, applied, durable, mode, rcv, ncrash, naux, lastRec, rdr, cur>>
    /\ NoLog

\* log.rs clean_logs: set_len(0) + sync_all of a file whose changes were flushed
TruncateLog ==
    /\ mode = "open" /\ Fine
    /\ IF "truncate_any" \in Mut THEN Len(logs) > 0 /\ logs[1].st # "app" /\ cw.pc = "idle"
       ELSE IF "trunc_unflushed" \in Mut THEN Len(logs) > 0 /\ logs[1].st = "cq"
       ELSE flushedCq > 0 /\ logs[1].st = "cq"
    /\ logs' = Tail(logs)
    /\ pool' = pool \cup {logs[1].id} /\ UNCHANGED nextLogId
    /\ flushedCq' = IF flushedCq > 0 THEN flushedCq - 1 ELSE 0
    /\ rpos' = IF logs[1].st = "rd" THEN 0 ELSE rpos
    /\ UNCHANGED <<hist, logical, calls, queue, nextCid, covl, lw, nextRid, lovl, cw,
                   lastEnacted, tabs, dtabs, applied, durable, mode, rcv, ncrash, naux, lastRec, rdr, cur>>
    /\ NoLog

\* stepping API: Db::clean_logs()
Clean ==
    /\ mode = "open" /\ ~Fine /\ NumCq > 0
    /\ dtabs' = tabs
    /\ logs' = SubSeq(logs, NumCq + 1, Len(logs))
    /\ pool' = pool \cup {logs[i].id : i \in 1..NumCq} /\ UNCHANGED nextLogId
    /\ flushedCq' = 0
    /\ UNCHANGED <<hist, logical, calls, queue, nextCid, covl, lw, nextRid, rpos, lovl, cw,
                   lastEnacted, tabs, applied, durable, mode, rcv, ncrash, naux, lastRec, rdr, cur>>
    /\ Log([a |-> "Clean", obs |-> Obs'])

----------------------------------------------------------------------------
(* Clean shutdown and reopen: Drop for Db (drop_inner, kill_logs) then Db::open *)

UnenactedRecs ==
    LET RECURSIVE Collect(_)
        Collect(i) ==
            IF i > Len(logs) THEN <<>>
            ELSE (IF logs[i].st = "cq" THEN <<>>
                  ELSE IF logs[i].st = "rd" THEN SubSeq(logs[i].recs, rpos + 1, Len(logs[i].recs))
                  ELSE logs[i].recs) \o Collect(i + 1)
    IN Collect(1)

RECURSIVE DrainQueue(_, _, _)
DrainQueue(tb, q, i) ==
    IF i > Len(q) THEN tb ELSE DrainQueue(ApplyTx(tb, q[i].tx), q, i + 1)

\* kill_logs: enact what is logged, flush, log + enact the leftover commits, flush
\* tables, delete logs.  Workers are joined first, so they are idle.
CloseOpen ==
    /\ "restart" \in Feat /\ mode = "open" /\ LwIdle /\ CwIdle /\ rdr.pc = "idle"
    /\ LET t1 == TabsApplyAll(tabs, UnenactedRecs, 1)
           t2 == DrainQueue(t1, queue, 1) IN
       /\ tabs' = t2 /\ dtabs' = t2
    /\ queue' = <<>> /\ covl' = [l \in Loc |-> NoCovl] /\ lovl' = [l \in Loc |-> NoLovl]
    /\ logs' = <<>> /\ rpos' = 0 /\ flushedCq' = 0
    /\ pool' = {} /\ nextLogId' = 0
    /\ nextRid' = 1 /\ nextCid' = 0 /\ lastEnacted' = 1
    /\ durable' = Len(hist) /\ applied' = Len(hist) /\ cur' = NoCur
    /\ UNCHANGED <<hist, logical, calls, lw, cw, mode, rcv, ncrash, naux, lastRec, rdr>>
    /\ Log([a |-> "CloseOpen", obs |-> Obs'])

----------------------------------------------------------------------------
(* Crash, power loss and recovery *)

Volatile ==
    /\ queue' = <<>> /\ covl' = [l \in Loc |-> NoCovl] /\ lovl' = [l \in Loc |-> NoLovl]
    /\ lw' = Idle /\ cw' = Idle /\ nextCid' = 0 /\ rdr' = [pc |-> "idle"] /\ cur' = NoCur

\* what a log file keeps when the process dies: everything written (BufWriter is flushed
\* at the end of every record); a record being appended may be torn.
CrashLogs ==
    LET tornAppend == Fine /\ lw.pc = "planned" IN
    [i \in 1..Len(logs) |->
        IF i = Len(logs) /\ tornAppend /\ logs[i].st = "app"
        THEN [logs[i] EXCEPT !.partial = TRUE] ELSE logs[i]]

\* The process stops (kill -9).  Tables keep every store made so far (MAP_SHARED),
\* including a half-applied record.
Crash ==
    /\ "crash" \in Feat /\ ncrash < MaxCrash
    /\ mode \in {"open", "err"} \/ ("crashrec" \in Feat /\ mode = "recovering")
    /\ ncrash' = ncrash + 1
    /\ Volatile
    /\ logs' = IF mode = "recovering" THEN logs ELSE CrashLogs
    /\ KeepPool
    /\ mode' = "crashed"
    /\ flushedCq' = 0 /\ rpos' = 0
    /\ UNCHANGED <<hist, logical, calls, nextRid, lastEnacted, tabs, dtabs, applied, durable, rcv, naux, lastRec>>
    /\ Log([a |-> "Crash", inv |-> IdInversion, nfiles |-> Len(logs), napp |-> AppliedInFiles(1),
            nsyn |-> IF durable > applied THEN durable - applied ELSE 0])

\* Power loss (default options: sync_wal): of everything written since a file's last sync an
\* arbitrary part survives.  Only the appending file has unsynced records; keepLast = how
\* many of its records survive, tornLast = a torn record follows them; mix = locations
\* whose unflushed table content reached the disk.
PowerLoss(keepLast, tornLast, mix) ==
    /\ "power" \in Feat /\ ncrash < MaxCrash /\ SyncWal
    /\ mode \in {"open", "err"} \/ ("crashrec" \in Feat /\ mode = "recovering")
    /\ LET U == {i \in 1..Len(logs) : ~logs[i].syn}
           u == IF U = {} THEN 0 ELSE MinOf(U) IN
       /\ IF u = 0 THEN keepLast = 0 /\ ~tornLast
          ELSE /\ keepLast \in 0..Len(logs[u].recs)
               /\ tornLast => (keepLast < Len(logs[u].recs) \/ (Fine /\ lw.pc = "planned"))
       /\ KeepPool
       /\ logs' = IF u = 0 THEN logs
                  ELSE SubSeq(logs, 1, u - 1) \o
                       <<[logs[u] EXCEPT !.recs = SubSeq(@, 1, keepLast), !.partial = tornLast]>>
    /\ ncrash' = ncrash + 1
    /\ Volatile
    /\ tabs' = [l \in Loc |-> IF l \in mix THEN tabs[l] ELSE dtabs[l]]
    /\ dtabs' = tabs'
    /\ mode' = "crashed"
    /\ flushedCq' = 0 /\ rpos' = 0
    /\ UNCHANGED <<hist, logical, calls, nextRid, lastEnacted, applied, durable, rcv, naux, lastRec>>
    /\ Log([a |-> "PowerLoss"])

\* the recovered prefix: largest n with tabs = state after hist[1..n]
PrefixSet(tb) == { n \in 0..Len(hist) : tb = StateAfter(hist, n) }

\* Db::open: Log::open orders the files by first record id; last_enacted = first - 1
NonEmptyLogs == SelectSeq(logs, LAMBDA f : f.recs # <<>>)

\* Log::open queues the files by the id of their first record (the model keeps `logs` in
\* that order); file numbers are NOT in temporal order because truncated files are reused
\* lowest id first.  Necessity config "open_by_file_id" orders by file number instead.
RECURSIVE SortById(_)
SortById(fs) ==
    IF fs = <<>> THEN <<>>
    ELSE LET m == CHOOSE i \in 1..Len(fs) : \A j \in 1..Len(fs) : fs[i].id <= fs[j].id IN
         <<fs[m]>> \o SortById(SubSeq(fs, 1, m - 1) \o SubSeq(fs, m + 1, Len(fs)))
OpenOrder == IF "open_by_file_id" \in Mut THEN SortById(NonEmptyLogs) ELSE NonEmptyLogs
\* The records recovery is going to apply, given the files on disk.
RECURSIVE ReplayFrom(_, _, _, _)
ReplayFrom(fs, f, r, last) ==
    IF f > Len(fs) THEN <<>>
    ELSE IF r <= Len(fs[f].recs)
         THEN LET rec == fs[f].recs[r] IN
              IF rec.rid = last + 1 /\ ~("bad" \in DOMAIN rec)
              THEN <<rec>> \o ReplayFrom(fs, f, r + 1, rec.rid)
              ELSE <<>>
         ELSE ReplayFrom(fs, f + 1, 1, last)
ReplaySeq == LET fs == OpenOrder IN
             IF fs = <<>> THEN <<>> ELSE ReplayFrom(fs, 1, 1, fs[1].recs[1].rid - 1)
ReplayHs == {ReplaySeq[i].h : i \in 1..Len(ReplaySeq)} \ {0}

\* Two damage patterns that parity-db's recovery (which keeps no record of the last applied
\* id in the tables) cannot handle; see DESIGN.md, findings F12a/F12b.  They never arise
\* from crashes alone (invariant NoNaturalDamage).
\*  headgap: the replay starts after a gap (the oldest surviving record is not the successor
\*           of what the tables hold): later transactions applied without their predecessors
\*  regress: already applied old records are replayed and the replay then stops before
\*           reaching what the tables held: the tables go back in time (or are mixed)
DamageClass ==
    IF ReplayHs = {} THEN "none"
    ELSE IF MinOf(ReplayHs) > applied + 1 THEN "headgap"
    ELSE IF MaxOf(ReplayHs) < applied THEN "regress"
    ELSE "none"

RecoverStart ==
    /\ mode = "crashed"
    /\ ("safe_damage" \in Feat) => DamageClass = "none"
    /\ mode' = "recovering"
    /\ logs' = [i \in 1..Len(OpenOrder) |-> [OpenOrder[i] EXCEPT !.st = "rp"]]
    /\ pool' = {}
    /\ nextLogId' = IF NonEmptyLogs = <<>> THEN 0 ELSE 1 + MaxOf({NonEmptyLogs[i].id : i \in 1..Len(NonEmptyLogs)})
    /\ lastEnacted' = IF OpenOrder = <<>> THEN 1 ELSE OpenOrder[1].recs[1].rid - 1
    /\ rcv' = [f |-> 1, r |-> 0, any |-> FALSE,
               pre |-> applied, dmg |-> DamageClass]
    /\ UNCHANGED <<hist, logical, calls, queue, nextCid, covl, lw, nextRid, rpos, lovl, cw, tabs,
                   dtabs, flushedCq, applied, durable, ncrash, naux, lastRec, rdr, cur>>
    /\ NoLog

\* enact_logs(true): a record is applied only if it is complete, checksum-valid (a torn
\* record is not) and numbered last_enacted + 1; anything else ends the replay.
RecoverRec ==
    /\ mode = "recovering" /\ rcv.f <= Len(logs)
    /\ LET f == logs[rcv.f] IN
       IF rcv.r < Len(f.recs)
       THEN LET rec == f.recs[rcv.r + 1] IN
            IF rec.rid = lastEnacted + 1 /\ ~("bad" \in DOMAIN rec)
            THEN /\ tabs' = TabsApply(tabs, rec)
                 /\ lastEnacted' = rec.rid
                 /\ applied' = Max(applied, rec.h)
                 /\ rcv' = [rcv EXCEPT !.r = @ + 1, !.any = TRUE]
            ELSE /\ rcv' = [rcv EXCEPT !.f = Len(logs) + 1]      \* clear_replay_logs
                 /\ UNCHANGED <<tabs, lastEnacted, applied>>
       ELSE /\ rcv' = [rcv EXCEPT !.f = @ + 1, !.r = 0]           \* next file
            /\ UNCHANGED <<tabs, lastEnacted, applied>>
    \* replay_next syncs a file before its first record is read (repair 7156d81; the necessity config
    \* "replay_unsynced" leaves it as it was: a power loss during recovery can then tear a transaction)
    /\ logs' = IF rcv.r = 0 /\ SyncWal /\ "replay_unsynced" \notin Mut
               THEN [logs EXCEPT ![rcv.f].syn = TRUE] ELSE logs
    /\ UNCHANGED <<hist, logical, calls, queue, nextCid, covl, lw, nextRid, pool, nextLogId, rpos, lovl, cw,
                   dtabs, flushedCq, durable, mode, ncrash, naux, lastRec, rdr, cur>>
    /\ NoLog

\* clean_all_logs (msync), kill_logs (delete); the handle is now open.
RecoverDone ==
    /\ mode = "recovering" /\ rcv.f > Len(logs)
    /\ LET P == PrefixSet(tabs)
           n == IF P = {} THEN 0 ELSE MaxOf(P) IN
       \* lower bound: the synced commits; with damaged logs only what the tables held
       /\ lastRec' = [n |-> n, lo |-> (IF "corrupt" \in Feat THEN Min(durable, rcv.pre) ELSE durable),
                      ok |-> (P # {}), pre |-> rcv.pre]
       /\ hist' = SubSeq(hist, 1, n)
       /\ logical' = StateAfter(hist, n)
       /\ durable' = n
    /\ dtabs' = tabs
    /\ logs' = <<>>
    /\ pool' = {} /\ UNCHANGED nextLogId
    /\ nextRid' = IF rcv.any THEN lastEnacted + 1 ELSE 1
    /\ mode' = "open"
    /\ applied' = IF lastRec'.ok THEN lastRec'.n ELSE applied
    /\ UNCHANGED <<calls, queue, nextCid, covl, lw, rpos, lovl, cw, lastEnacted, tabs,
                   flushedCq, rcv, ncrash, naux, rdr, cur>>
    /\ Log([a |-> "Reopen", n |-> lastRec'.n, lo |-> lastRec'.lo, dmg |-> rcv.dmg, obs |-> Obs'])

----------------------------------------------------------------------------
(* Damaged logs (C13): applied to the files found at open *)

\* truncate file f after `keep` complete records, possibly inside the next one
CorruptTruncate(f, keep, torn) ==
    /\ "corrupt" \in Feat /\ mode = "crashed" /\ naux < MaxAux
    /\ f \in 1..Len(logs) /\ keep \in 0..Len(logs[f].recs)
    /\ torn => keep < Len(logs[f].recs)
    /\ logs' = [logs EXCEPT ![f].recs = SubSeq(@, 1, keep), ![f].partial = torn]
    /\ KeepPool
    /\ naux' = naux + 1
    /\ UNCHANGED <<hist, logical, calls, queue, nextCid, covl, lw, nextRid, rpos, lovl, cw,
                   lastEnacted, tabs, dtabs, flushedCq, applied, durable, mode, rcv, ncrash, lastRec, rdr, cur>>
    /\ Log([a |-> "CorruptTruncate", f |-> f, keep |-> keep, torn |-> torn])

\* flip bits inside record r of file f: its checksum no longer matches
CorruptRecord(f, r) ==
    /\ "corrupt" \in Feat /\ mode = "crashed" /\ naux < MaxAux
    /\ f \in 1..Len(logs) /\ r \in 1..Len(logs[f].recs)
    /\ logs' = [logs EXCEPT ![f].recs[r] = [rid |-> @.rid, h |-> @.h, cid |-> @.cid, w |-> @.w, bad |-> TRUE]]
    /\ KeepPool
    /\ naux' = naux + 1
    /\ UNCHANGED <<hist, logical, calls, queue, nextCid, covl, lw, nextRid, rpos, lovl, cw,
                   lastEnacted, tabs, dtabs, flushedCq, applied, durable, mode, rcv, ncrash, lastRec, rdr, cur>>
    /\ Log([a |-> "CorruptRecord", f |-> f, r |-> r])

\* a log file disappears
CorruptDelete(f) ==
    /\ "corrupt" \in Feat /\ mode = "crashed" /\ naux < MaxAux
    /\ f \in 1..Len(logs)
    /\ logs' = SubSeq(logs, 1, f - 1) \o SubSeq(logs, f + 1, Len(logs))
    /\ KeepPool
    /\ naux' = naux + 1
    /\ UNCHANGED <<hist, logical, calls, queue, nextCid, covl, lw, nextRid, rpos, lovl, cw,
                   lastEnacted, tabs, dtabs, flushedCq, applied, durable, mode, rcv, ncrash, lastRec, rdr, cur>>
    /\ Log([a |-> "CorruptDelete", f |-> f])

\* two log files change names (reordered / renamed files): replay goes by the first record id of a file,
\* not by its name, so nothing else changes
CorruptSwap(f, g) ==
    /\ "corrupt" \in Feat /\ mode = "crashed" /\ naux < MaxAux
    /\ f \in 1..Len(logs) /\ g \in 1..Len(logs) /\ f < g
    /\ logs' = [logs EXCEPT ![f].id = logs[g].id, ![g].id = logs[f].id]
    /\ KeepPool
    /\ naux' = naux + 1
    /\ UNCHANGED <<hist, logical, calls, queue, nextCid, covl, lw, nextRid, rpos, lovl, cw,
                   lastEnacted, tabs, dtabs, flushedCq, applied, durable, mode, rcv, ncrash, lastRec, rdr, cur>>
    /\ Log([a |-> "CorruptSwap", f |-> f, g |-> g])

----------------------------------------------------------------------------
(* I/O failure (C16): a pipeline step stops part-way, the handle enters the           *)
(* background-error state: no further logging/enacting, commits refused, reads work.  *)

\* process_commits fails while appending: the commit is popped, its record torn or absent
IoFailAppend(torn) ==
    /\ "iofail" \in Feat /\ mode = "open" /\ LwIdle /\ CwIdle /\ queue # <<>>
    /\ queue' = Tail(queue)
    /\ nextRid' = nextRid + 1
    /\ logs' = IF torn /\ HasApp THEN [logs EXCEPT ![Len(logs)].partial = TRUE] ELSE logs
    /\ KeepPool
    /\ mode' = "err"
    /\ UNCHANGED <<hist, logical, calls, nextCid, covl, lw, rpos, lovl, cw, lastEnacted, tabs,
                   dtabs, flushedCq, applied, durable, rcv, ncrash, naux, lastRec, rdr, cur>>
    /\ Log([a |-> "IoFailAppend", obs |-> Obs'])

\* enact_logs fails after writing the locations in `done` of the next record
IoFailEnact(done) ==
    /\ "iofail" \in Feat /\ mode = "open" /\ LwIdle /\ CwIdle
    /\ LET n == NextToEnact IN
       /\ n.r # 0
       /\ done \subseteq DOMAIN logs[n.f].recs[n.r].w
       /\ tabs' = [l \in Loc |-> IF l \in done THEN logs[n.f].recs[n.r].w[l] ELSE tabs[l]]
    /\ mode' = "err"
    /\ UNCHANGED <<hist, logical, calls, queue, nextCid, covl, lw, nextRid, logs, pool, nextLogId, rpos, lovl, cw,
                   lastEnacted, dtabs, flushedCq, applied, durable, rcv, ncrash, naux, lastRec, rdr, cur>>
    /\ Log([a |-> "IoFailEnact", obs |-> Obs'])

\* any other failing step (sync, truncate, flush): nothing changes but the mode
IoFailOther ==
    /\ "iofail" \in Feat /\ mode = "open" /\ LwIdle /\ CwIdle
    /\ mode' = "err"
    /\ UNCHANGED <<hist, logical, calls, queue, nextCid, covl, lw, nextRid, logs, pool, nextLogId, rpos, lovl, cw,
                   lastEnacted, tabs, dtabs, flushedCq, applied, durable, rcv, ncrash, naux, lastRec, rdr, cur>>
    /\ Log([a |-> "IoFailOther", ncq |-> NumCq, inv |-> IdInversion, obs |-> Obs'])

\* drop in the error state (kill_logs): fully enacted logs are truncated, nothing else is
\* touched; the next open replays what is left.
DropErr ==
    /\ "iofail" \in Feat /\ mode = "err"
    /\ Volatile
    /\ logs' = SelectSeq(logs, LAMBDA f : f.st # "cq")
    /\ KeepPool
    /\ mode' = "crashed"
    /\ flushedCq' = 0 /\ rpos' = 0
    /\ UNCHANGED <<hist, logical, calls, nextRid, lastEnacted, tabs, dtabs, applied, durable, rcv, ncrash,
                   naux, lastRec>>
    /\ Log([a |-> "DropErr"])

----------------------------------------------------------------------------
(* Btree iterator (C04): the abstract ordered-map cursor.  Keys are ranks in the run's key
   universe (byte order = numeric order).  Every call is answered against the latest
   committed state, wherever the data currently sits. *)

IsBtree(c) == Kind[c] \in {"btree", "btree_rc"}
\* what the iterator can see is what point reads see (commit overlay, log overlay, tree): for plain btree
\* columns that is the latest committed state (LayerHandOver); for ref-counted ones a key whose count
\* dropped to zero stays visible until the dereference is processed, exactly as for get (C07)
Live(c) == {k \in Keys : Get(<<c, k>>) # 0}
CurOthers == UNCHANGED <<hist, logical, calls, queue, nextCid, covl, lw, nextRid, logs, pool, nextLogId, rpos, lovl, cw,
                         lastEnacted, tabs, dtabs, flushedCq, applied, durable, mode, rcv, ncrash, naux,
                         lastRec, rdr>>

CurOpen(c) ==
    /\ "cursor" \in Feat /\ mode = "open" /\ IsBtree(c) /\ ~cur.open
    /\ CurOthers
    /\ cur' = [open |-> TRUE, c |-> c, t |-> "start", k |-> 0]
    /\ Log([a |-> "CurOpen", c |-> c])

CurClose ==
    /\ cur.open /\ cur' = NoCur
    /\ CurOthers
    /\ Log([a |-> "CurClose"])

\* seek(k): the next forward step yields the smallest key >= k, backward the largest <= k
CurSeek(k) ==
    /\ cur.open /\ mode = "open"
    /\ CurOthers
    /\ cur' = [cur EXCEPT !.t = "seeked", !.k = k]
    /\ Log([a |-> "CurSeek", k |-> k])

\* seek_to_first = seek(empty key); the universe of cursor runs has no empty key: rank 0
CurFirst ==
    /\ cur.open /\ mode = "open"
    /\ CurOthers
    /\ cur' = [cur EXCEPT !.t = "seeked", !.k = 0]
    /\ Log([a |-> "CurFirst"])

CurLast ==
    /\ cur.open /\ mode = "open"
    /\ CurOthers
    /\ cur' = [cur EXCEPT !.t = "end", !.k = 0]
    /\ Log([a |-> "CurLast"])

NextCands == CASE cur.t = "start"  -> Live(cur.c)
               [] cur.t = "seeked" -> {x \in Live(cur.c) : x >= cur.k}
               [] cur.t = "at"     -> {x \in Live(cur.c) : x > cur.k}
               [] OTHER            -> {}
PrevCands == CASE cur.t = "end"    -> Live(cur.c)
               [] cur.t = "seeked" -> {x \in Live(cur.c) : x <= cur.k}
               [] cur.t = "at"     -> {x \in Live(cur.c) : x < cur.k}
               [] OTHER            -> {}
CurResult(k) == <<k, Get(<<cur.c, k>>)>>

NextRes == IF NextCands = {} THEN <<>> ELSE CurResult(MinOf(NextCands))
PrevRes == IF PrevCands = {} THEN <<>> ELSE CurResult(MaxOf(PrevCands))

CurNext ==
    /\ cur.open /\ mode = "open"
    /\ CurOthers
    /\ IF NextCands = {}
       THEN cur' = [cur EXCEPT !.t = "end", !.k = 0] /\ Log([a |-> "CurNext", res |-> <<>>])
       ELSE LET k == MinOf(NextCands) IN
            cur' = [cur EXCEPT !.t = "at", !.k = k] /\ Log([a |-> "CurNext", res |-> CurResult(k)])

CurPrev ==
    /\ cur.open /\ mode = "open"
    /\ CurOthers
    /\ IF PrevCands = {}
       THEN cur' = [cur EXCEPT !.t = "start", !.k = 0] /\ Log([a |-> "CurPrev", res |-> <<>>])
       ELSE LET k == MaxOf(PrevCands) IN
            cur' = [cur EXCEPT !.t = "at", !.k = k] /\ Log([a |-> "CurPrev", res |-> CurResult(k)])

----------------------------------------------------------------------------
Next ==
    \/ \E tx \in Txs : Commit(tx) \/ Reject(tx)
    \/ (\E l \in Loc : RStart(l)) \/ RLovl \/ RTabs \/ RFinish
    \/ (\E c \in Cols : CurOpen(c)) \/ CurClose \/ (\E k \in Keys : CurSeek(k)) \/ CurFirst \/ CurLast
    \/ CurNext \/ CurPrev
    \/ PopAndPlan \/ EndRecord \/ CleanCovl \/ ProcessCommit \/ AuxRecord
    \/ FlushLog
    \/ LogEof \/ EnactBegin \/ (\E l \in Loc : EnactWrite(l)) \/ EnactEnd \/ EndRead \/ EnactOne
    \/ FlushTables \/ TruncateLog \/ Clean
    \/ CloseOpen
    \/ Crash
    \/ (\E keep \in 0..MaxCalls + MaxAux, torn \in BOOLEAN, mix \in SUBSET Loc :
            PowerLoss(keep, torn, mix))
    \/ RecoverStart \/ RecoverRec \/ RecoverDone
    \/ (\E f \in 1..Len(logs), k \in 0..MaxCalls + MaxAux, t \in BOOLEAN : CorruptTruncate(f, k, t))
    \/ (\E f \in 1..Len(logs), r \in 1..MaxCalls + MaxAux : CorruptRecord(f, r))
    \/ (\E f \in 1..Len(logs) : CorruptDelete(f))
    \/ (\E f, g \in 1..Len(logs) : CorruptSwap(f, g))
    \/ (\E t \in BOOLEAN : IoFailAppend(t))
    \/ (\E d \in SUBSET Loc : IoFailEnact(d))
    \/ IoFailOther \/ DropErr

Spec == Init /\ [][Next]_vars

----------------------------------------------------------------------------
(* Properties *)

\* the incrementally maintained logical state is the fold of the history
LogicalOK == logical = StateAfter(hist, Len(hist))

TypeOK ==
    /\ mode \in {"open", "crashed", "recovering", "err"}
    /\ lw.pc \in {"idle", "planned", "ended", "cleaned"}
    /\ cw.pc \in {"idle", "writing", "written"}
    /\ durable \in 0..Len(hist)

\* C01 / C04 (point reads) / C07: every read returns the latest committed value.
ReadLatest ==
    mode \in {"open", "err"} =>
      \A l \in Loc :
        IF IsRc(l[1])
        THEN /\ Present(Logical[l]) => Get(l) = Logical[l].v
             /\ (queue = <<>> /\ LwIdle /\ mode = "open") => (Get(l) # 0 <=> Present(Logical[l]))
        ELSE Get(l) = Vis(Logical[l])

\* C05: a read returns a value that was the latest for its key at some moment between
\* the start and the end of the read.
ReadInterval == (rdr.pc = "done" /\ ~IsRc(rdr.loc[1])) => rdr.got \in rdr.seen

\* C05 (auxiliary): a key is never without a holder of its newest version.
LayerHandOver ==
    mode = "open" =>
      \A l \in Loc : (~IsRc(l[1]) /\ covl[l].cid = 0) => Vis(View[l]) = Vis(Logical[l])

\* C02: recovery exposes a prefix.  C03 / C12: it contains every synced commit.
RecoveredIsPrefix == lastRec.ok
SyncedSurvive == lastRec.n >= lastRec.lo
\* C13: whatever the logs contain, recovery never goes back behind what the tables held.
NotOlderThanTables == lastRec.n >= lastRec.pre
NoNaturalDamage == ("corrupt" \notin Feat) => rcv.dmg = "none"

\* C03: a clean close + reopen keeps everything (checked in the state after CloseOpen).
DrainedIsAll ==
    (mode = "open" /\ queue = <<>> /\ logs = <<>> /\ LwIdle /\ CwIdle) => tabs = Logical

\* C12, as state invariants on the ordering guards:
\*  (a) a record being applied lies in a synced file
WalBeforeApply ==
    (SyncWal /\ cw.pc = "writing") =>
       \E i \in 1..Len(logs) : logs[i].st \in {"rd"} /\ \E r \in 1..Len(logs[i].recs) : logs[i].recs[r] = cw.rec
\*  (b) everything durable is in dtabs or in a log that still exists: power loss at this
\*      instant can be repaired (checked directly by PowerLoss + RecoveredIsPrefix).

----------------------------------------------------------------------------
(* Views and constraints for the configs *)

\* hide the history variable (and the bookkeeping that depends on it only through reads)
\* for configs without crashes the history matters only through the logical state
ViewLogical == <<rdr, cur, logical, calls, queue, nextCid, covl, lw, nextRid, logs, pool, nextLogId, rpos, lovl, cw,
                 lastEnacted, tabs, dtabs, flushedCq, applied, durable, mode, rcv, ncrash, naux, lastRec>>

ViewNoTrace == <<rdr, cur, hist, logical, calls, queue, nextCid, covl, lw, nextRid, logs, pool, nextLogId, rpos, lovl, cw,
                 lastEnacted, tabs, dtabs, flushedCq, applied, durable, mode, rcv, ncrash, naux, lastRec>>

=============================================================================
