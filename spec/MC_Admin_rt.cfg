\* C17 round trip: every valid option record
CONSTANTS
  MaxCols = 1
  NKeys = 2
  NVals = 2
  MinCols = 1
  GenLen = 11
SPECIFICATION RtSpec
INVARIANTS TypeOK EmitTrace
CHECK_DEADLOCK FALSE
