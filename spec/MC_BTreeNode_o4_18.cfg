\* 4 separators per node, 18 keys: every two-level tree (three ways to split a leaf, borrowing and merging of leaves, root split / collapse);
\* an inner node splits only from 17 keys on: MC_BTreeNode_o4_18.cfg (thorough tier) and ORDER 2 above
CONSTANTS
  ORDER = 4
  NK = 18
  KeepHist = FALSE
  GrowLen = 0
  AscSizes = {}
  Mut = {}
  BatchPct = 0
  GenLen = 0
SPECIFICATION Spec
VIEW View
INVARIANTS TreeOK ContentOK MinFill
CHECK_DEADLOCK FALSE
