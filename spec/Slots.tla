------------------------------- MODULE Slots -------------------------------
(* Value-table slot allocation of one hash column, transcribed from src/table.rs / src/column.rs:               *)
(*   next_free (pop the free list, else extend), clear_slot (push), overwrite_chain (insert / replace in place   *)
(*   following the old chain, extending it, trimming its tail), clear_chain, complete_plan (header logged when    *)
(*   dirty), enact_plan, recovery (replay + refresh_metadata).  Serves C06 (storage of an overwritten / removed  *)
(*   value is released and reused), C14 (every slot below the fill mark is in exactly one live chain or on the   *)
(*   free list exactly once; no unbounded growth), C02 (recovery restores the allocation state).                 *)
(* Counting columns (RC): a Set of a present key / a Dereference above one only log the entry again.              *)
(* Crash: a process crash keeps every closed record, a power loss drops the ones written since the last flush.   *)
(* The model predicts ADDRESSES: the replay (pdbh slots-replay) compares fill marks, free-list order and the      *)
(* chain of slots of every key with the real files after every step.                                             *)
EXTENDS Naturals, Sequences, FiniteSets, TLC, Json

CONSTANTS NK,        \* keys 1..NK
          NT,        \* tiers 1..NT; 1..NT-1 are fixed-size tables, NT is the multipart table
          Parts,     \* chain lengths of the values stored in the multipart table
          MaxSlot,   \* bound on the fill mark of a table (state constraint of the exhaustive configs)
          MaxOps,    \* operations per commit (= per log record)
          MaxLog,    \* records logged and not yet enacted
          RC,        \* TRUE: reference-counted column (preimage contract: the value is a function of the key): a Set of
                     \* a present key raises its count, a Dereference lowers it and frees the storage at zero
          KeepHist, GenLen,
          Mut        \* deliberately wrong variants (necessity configs)

Keys  == 1..NK
Tiers == 1..NT
MT    == NT
Kinds == {[t |-> f, n |-> 1] : f \in 1..(NT - 1)} \cup {[t |-> MT, n |-> p] : p \in Parts}
NoKind == [t |-> 0, n |-> 0]
NoAddr == [t |-> 0, a |-> 0]

\* slot contents: none (never written) | tomb (free, nx = next free) | val (complete value with key) |
\* head (first part of a chain, with key, nx = next part) | part (middle part) | last (final part: sized, no key)
E(kind, key, nx) == [k |-> kind, key |-> key, nx |-> nx]
None == E("none", 0, 0)
IsMulti(e) == e.k \in {"head", "part"}

VARIABLES mem,    \* [Tiers -> [f, l, d]]: fill mark, free-list head, dirty_header (in memory, advanced at planning time)
          cur,    \* [Tiers -> [1..MaxSlot -> entry]]: what planning reads (file overlaid with every logged write)
          idx,    \* [Keys -> address]: the index as planning sees it
          w, iw,  \* slots / index keys written by the record under construction
          nops,   \* operations planned into the record under construction
          log,    \* closed records not yet enacted
          file, fhdr, fidx,   \* the files
          val, valc,          \* ghost: logical content now / at the last closed record
          cnt, cntc,          \* reference counts (RC) now / at the last closed record
          valf, cntf,         \* ghost: content / counts as of the files (the last enacted record)
          unsyn,              \* how many records at the tail of `log` are written but not yet synced
          peak,               \* ghost: most slots of a table ever live at once
          hist, tags
vars == <<mem, cur, idx, w, iw, nops, log, file, fhdr, fidx, val, valc, cnt, cntc, valf, cntf, unsyn, peak, hist, tags>>

----------------------------------------------------------------------------
(* planning state threaded through the steps of one operation *)
St == [mem |-> mem, cur |-> cur, idx |-> idx, w |-> w, iw |-> iw, tags |-> {}]

Write(S, t, a, e) == [S EXCEPT !.cur[t][a] = e, !.w = @ \cup {<<t, a>>}]

\* ValueTable::next_free: the head of the free list if there is one (its link read through the log overlay),
\* else the fill mark
NextFree(S, t) ==
    LET m == S.mem[t] IN
    IF m.l # 0
    THEN [S |-> [S EXCEPT !.mem[t] = [f |-> m.f, l |-> S.cur[t][m.l].nx, d |-> IF "pop_not_dirty" \in Mut THEN m.d ELSE TRUE],
                          !.tags = @ \cup {"pop"}],
          a |-> m.l]
    ELSE [S |-> [S EXCEPT !.mem[t] = [f |-> m.f + 1, l |-> 0, d |-> TRUE], !.tags = @ \cup {"extend"}], a |-> m.f]

\* ValueTable::clear_slot: tombstone linking to the old head, slot becomes the head
ClearSlot(S, t, a) ==
    LET S1 == Write(S, t, a, E("tomb", 0, S.mem[t].l)) IN
    [S1 EXCEPT !.mem[t] = [f |-> S.mem[t].f, l |-> a, d |-> TRUE]]

\* ValueTable::clear_chain: the link is read before the slot is cleared
RECURSIVE ClearChain(_, _, _)
ClearChain(S, t, a) ==
    LET e == S.cur[t][a] IN
    IF t = MT /\ IsMulti(e) THEN ClearChain(ClearSlot(S, t, a), t, e.nx) ELSE ClearSlot(S, t, a)

RemovePlan(S, t, a) == IF t = MT THEN ClearChain(S, t, a) ELSE ClearSlot(S, t, a)

\* ValueTable::overwrite_chain: part i of n goes to slot `index`; while `follow` the links of the chain being
\* replaced are reused, after its end new slots are taken; a longer old chain is cleared behind the last part
RECURSIVE OC(_, _, _, _, _, _, _, _)
OC(S, t, key, n, i, index, follow, start) ==
    LET e      == S.cur[t][index]
        fol    == follow /\ t = MT /\ IsMulti(e)
        linked == IF fol THEN e.nx ELSE 0
        more   == i < n
        alloc  == IF more /\ ~fol THEN NextFree(S, t) ELSE [S |-> S, a |-> linked]
        nx     == alloc.a
        ent    == IF more THEN (IF i = 1 THEN E("head", key, nx) ELSE E("part", 0, nx))
                  ELSE (IF i = 1 THEN E("val", key, 0) ELSE E("last", 0, 0))
        S1     == Write(alloc.S, t, index, ent)
        st     == IF i = 1 THEN index ELSE start
        tg     == IF more /\ follow /\ ~fol THEN {"grow_chain"} ELSE IF ~more /\ nx # 0 THEN {"trim_chain"}
                  ELSE IF ~more /\ follow /\ ~fol /\ i > 1 THEN {"same_chain"} ELSE {} IN
    IF more THEN OC([S1 EXCEPT !.tags = @ \cup tg], t, key, n, i + 1, nx, fol, st)
    ELSE [S |-> IF nx # 0 /\ "no_trim" \notin Mut THEN ClearChain([S1 EXCEPT !.tags = @ \cup tg], t, nx) ELSE [S1 EXCEPT !.tags = @ \cup tg],
          a |-> st]

InsertPlan(S, t, key, n) == LET f == NextFree(S, t) IN OC(f.S, t, key, n, 1, f.a, FALSE, 0)
ReplacePlan(S, t, key, n, at) == OC(S, t, key, n, 1, at, TRUE, 0).S

Commit(S) ==
    /\ mem' = S.mem /\ cur' = S.cur /\ idx' = S.idx /\ w' = S.w /\ iw' = S.iw
    /\ nops' = nops + 1
    /\ tags' = tags \cup S.tags

Live(c, ix, t) == LET RECURSIVE Ch(_, _)
                      Ch(a, fuel) == IF a = 0 \/ fuel = 0 THEN <<>>
                                     ELSE IF t = MT /\ IsMulti(c[t][a]) THEN <<a>> \o Ch(c[t][a].nx, fuel - 1) ELSE <<a>>
                  IN [k \in Keys |-> IF ix[k].t = t THEN Ch(ix[k].a, MaxSlot + 1) ELSE <<>>]
FreeSeq(c, head, t) == LET RECURSIVE Fr(_, _)
                           Fr(a, fuel) == IF a = 0 \/ fuel = 0 THEN <<>> ELSE <<a>> \o Fr(c[t][a].nx, fuel - 1)
                       IN Fr(head, MaxSlot + 1)
SumLen(f) == LET RECURSIVE Sm(_)
                 Sm(k) == IF k = 0 THEN 0 ELSE Len(f[k]) + Sm(k - 1)
             IN Sm(NK)

Expect ==
    [mem |-> [t \in Tiers |-> <<mem'[t].f, mem'[t].l>>],
     fh  |-> [t \in Tiers |-> <<fhdr'[t].f, fhdr'[t].l>>],
     ch  |-> [k \in Keys |-> IF idx'[k].t = 0 THEN [t |-> 0, s |-> <<>>] ELSE [t |-> idx'[k].t, s |-> Live(cur', idx', idx'[k].t)[k]]],
     fr  |-> [t \in Tiers |-> FreeSeq(cur', mem'[t].l, t)],
     nlog |-> Len(log')]
Rec(a, k, kind) ==
    hist' = IF KeepHist THEN Append(hist, [a |-> a, k |-> k, t |-> kind.t, n |-> kind.n, x |-> Expect]) ELSE hist

\* counting column: the kind of a key's value is fixed (the value is a function of the key)
KindSeq == LET RECURSIVE KS(_)
               KS(S) == IF S = {} THEN <<>> ELSE LET x == CHOOSE y \in S : TRUE IN <<x>> \o KS(S \ {x})
           IN KS(Kinds)
KindOf(k) == KindSeq[(k % Len(KindSeq)) + 1]

\* ghost: most slots of a table live at once (after an operation)
PeakUp == peak' = [t \in Tiers |-> LET n == SumLen(Live(cur', idx', t)) IN IF n > peak[t] THEN n ELSE peak[t]]

(* client operations, planned into the record under construction *)
Set(k, kind) ==
    /\ nops < MaxOps /\ Len(log) < MaxLog
    /\ RC => kind = KindOf(k)
    /\ cnt' = IF RC THEN [cnt EXCEPT ![k] = @ + 1] ELSE cnt
    /\ LET S == St
           at == idx[k] IN
       /\ IF RC /\ at.t # 0
          \* ValueTable::change_ref: the entry is logged again with the new count, nothing is allocated
          THEN Commit([S EXCEPT !.w = @ \cup {<<at.t, at.a>>}, !.tags = @ \cup {"inc_ref"}])
          ELSE IF at.t = 0
          THEN LET r == InsertPlan(S, kind.t, k, kind.n) IN
               Commit([r.S EXCEPT !.idx[k] = [t |-> kind.t, a |-> r.a], !.iw = @ \cup {k}, !.tags = @ \cup {"insert"}])
          ELSE IF at.t = kind.t
          THEN Commit([ReplacePlan(S, kind.t, k, kind.n, at.a) EXCEPT !.tags = @ \cup {"replace"}])
          ELSE LET S1 == RemovePlan(S, at.t, at.a)
                   r  == InsertPlan(S1, kind.t, k, kind.n) IN
               Commit([r.S EXCEPT !.idx[k] = [t |-> kind.t, a |-> r.a], !.iw = @ \cup {k}, !.tags = @ \cup {"move"}])
    /\ val' = [val EXCEPT ![k] = kind]
    /\ PeakUp
    /\ UNCHANGED <<log, file, fhdr, fidx, valc, cntc, valf, cntf, unsyn>>
    /\ Rec("set", k, kind)

Remove(k) ==
    /\ nops < MaxOps /\ Len(log) < MaxLog
    /\ idx[k].t # 0
    /\ IF RC /\ cnt[k] > 1
       THEN /\ Commit([St EXCEPT !.w = @ \cup {<<idx[k].t, idx[k].a>>}, !.tags = @ \cup {"dec_ref"}])
            /\ val' = val
       ELSE /\ Commit([RemovePlan(St, idx[k].t, idx[k].a) EXCEPT !.idx[k] = NoAddr, !.iw = @ \cup {k}, !.tags = @ \cup {"remove"}])
            /\ val' = [val EXCEPT ![k] = NoKind]
    /\ cnt' = IF RC THEN [cnt EXCEPT ![k] = @ - 1] ELSE cnt
    /\ UNCHANGED <<log, file, fhdr, fidx, valc, cntc, valf, cntf, unsyn, peak>>
    /\ Rec("rem", k, NoKind)

\* DbInner::process_commits end of record: Column::complete_plan logs the header of every table whose fill mark or
\* free-list head moved
EndRecord ==
    /\ nops > 0
    /\ LET r == [s |-> [p \in w |-> cur[p[1]][p[2]]], i |-> [k \in iw |-> idx[k]],
                 h |-> [t \in {u \in Tiers : mem[u].d} |-> [f |-> mem[t].f, l |-> mem[t].l]],
                 v |-> val, c |-> cnt] IN       \* (v, c: ghost - the logical content this record leads to)
       log' = Append(log, r)
    /\ mem' = [t \in Tiers |-> [mem[t] EXCEPT !.d = FALSE]]
    /\ w' = {} /\ iw' = {} /\ nops' = 0
    /\ valc' = val /\ cntc' = cnt
    /\ unsyn' = unsyn + 1
    /\ UNCHANGED <<cur, idx, file, fhdr, fidx, val, cnt, valf, cntf, peak, tags>>
    /\ Rec("end", 0, NoKind)

Apply(fs, r) ==
    [file |-> [t \in Tiers |-> [a \in 1..MaxSlot |-> IF <<t, a>> \in DOMAIN r.s THEN r.s[<<t, a>>] ELSE fs.file[t][a]]],
     fhdr |-> [t \in Tiers |-> IF t \in DOMAIN r.h THEN r.h[t] ELSE fs.fhdr[t]],
     fidx |-> [k \in Keys |-> IF k \in DOMAIN r.i THEN r.i[k] ELSE fs.fidx[k]]]
RECURSIVE ApplyAll(_, _)
ApplyAll(fs, rs) == IF rs = <<>> THEN fs ELSE ApplyAll(Apply(fs, Head(rs)), Tail(rs))

\* the commit worker enacts the oldest record (the flush worker has synced and handed over every written record)
Enact ==
    /\ log # <<>>
    /\ unsyn' = 0 /\ valf' = Head(log).v /\ cntf' = Head(log).c
    /\ LET fs == Apply([file |-> file, fhdr |-> fhdr, fidx |-> fidx], Head(log)) IN
       file' = fs.file /\ fhdr' = fs.fhdr /\ fidx' = fs.fidx
    /\ log' = Tail(log)
    /\ UNCHANGED <<mem, cur, idx, w, iw, nops, val, valc, cnt, cntc, peak, tags>>
    /\ Rec("enact", 0, NoKind)

\* crash + Db::open: the closed records are in log files and are replayed - all of them after a process crash, all
\* but the last j written and not yet synced ones after a power loss; the record under construction is lost;
\* refresh_metadata re-reads fill mark and free-list head from the file headers
CrashJ(j) ==
    /\ j \in 0..unsyn
    /\ LET kept == SubSeq(log, 1, Len(log) - j)
           fs == ApplyAll([file |-> file, fhdr |-> fhdr, fidx |-> fidx], kept) IN
       /\ val' = IF kept = <<>> THEN valf ELSE kept[Len(kept)].v
       /\ cnt' = IF kept = <<>> THEN cntf ELSE kept[Len(kept)].c
       /\ valf' = val' /\ cntf' = cnt'
       /\ tags' = tags \cup {"crash"} \cup (IF kept # <<>> THEN {"crash_replays"} ELSE {}) \cup (IF j > 0 THEN {"crash_loses_unsynced"} ELSE {})
       /\ file' = fs.file /\ fhdr' = fs.fhdr /\ fidx' = fs.fidx
       /\ cur' = fs.file /\ idx' = fs.fidx
       /\ mem' = [t \in Tiers |-> [f |-> IF fs.fhdr[t].f = 0 THEN 1 ELSE fs.fhdr[t].f, l |-> fs.fhdr[t].l, d |-> FALSE]]
    /\ log' = <<>> /\ w' = {} /\ iw' = {} /\ nops' = 0 /\ unsyn' = 0
    /\ valc' = val' /\ cntc' = cnt'
    /\ UNCHANGED <<peak>>
    /\ Rec("crash", j, NoKind)
Crash == \E j \in 0..unsyn : CrashJ(j)

Init ==
    /\ mem = [t \in Tiers |-> [f |-> 1, l |-> 0, d |-> FALSE]]
    /\ cur = [t \in Tiers |-> [a \in 1..MaxSlot |-> None]]
    /\ idx = [k \in Keys |-> NoAddr]
    /\ w = {} /\ iw = {} /\ nops = 0 /\ log = <<>>
    /\ file = [t \in Tiers |-> [a \in 1..MaxSlot |-> None]]
    /\ fhdr = [t \in Tiers |-> [f |-> 0, l |-> 0]]
    /\ fidx = [k \in Keys |-> NoAddr]
    /\ val = [k \in Keys |-> NoKind] /\ valc = [k \in Keys |-> NoKind]
    /\ cnt = [k \in Keys |-> 0] /\ cntc = [k \in Keys |-> 0]
    /\ valf = [k \in Keys |-> NoKind] /\ cntf = [k \in Keys |-> 0] /\ unsyn = 0
    /\ peak = [t \in Tiers |-> 0]
    /\ hist = <<>> /\ tags = {}

Next == \/ \E k \in Keys, kind \in Kinds : Set(k, kind)
        \/ \E k \in Keys : Remove(k)
        \/ EndRecord \/ Enact \/ Crash
Spec == Init /\ [][Next]_vars

\* exhaustive configs: fill marks stay below the bound (a chain may need up to the longest part count of new slots)
MaxPart == CHOOSE p \in Parts : \A q \in Parts : q <= p
Bounded == \A t \in Tiers : mem[t].f + MaxPart <= MaxSlot
View == <<mem, cur, idx, w, iw, nops, log, file, fhdr, fidx, val, valc, cnt, cntc, valf, cntf, unsyn, peak>>
MaxCnt == 3
CntBound == \A k \in Keys : cnt[k] <= MaxCnt
BoundedRC == Bounded /\ CntBound

----------------------------------------------------------------------------
(* C14 / C06 on the design *)
SeqSet(q) == {q[i] : i \in 1..Len(q)}
NoDup(q) == Cardinality(SeqSet(q)) = Len(q)

\* every slot below the fill mark is in exactly one live chain or on the free list exactly once; the free list is
\* acyclic, in range, made of tombstones; chains are made of the right kinds of entries
SoundView(c, ix, f, l) ==
    \A t \in Tiers :
        LET ch == Live(c, ix, t)
            fr == FreeSeq(c, l[t], t)
            all == fr \o (LET RECURSIVE Cat(_)
                              Cat(k) == IF k = 0 THEN <<>> ELSE Cat(k - 1) \o ch[k] IN Cat(NK)) IN
        /\ NoDup(all)
        /\ SeqSet(all) = 1..(f[t] - 1)
        /\ \A i \in 1..Len(fr) : c[t][fr[i]].k = "tomb"
        /\ \A k \in Keys : LET q == ch[k] IN
              q # <<>> =>
                 /\ IF Len(q) = 1 THEN c[t][q[1]].k = "val" /\ c[t][q[1]].key = k
                    ELSE /\ c[t][q[1]].k = "head" /\ c[t][q[1]].key = k
                         /\ \A i \in 2..(Len(q) - 1) : c[t][q[i]].k = "part"
                         /\ c[t][q[Len(q)]].k = "last"
Sound == SoundView(cur, idx, [t \in Tiers |-> mem[t].f], [t \in Tiers |-> mem[t].l])
\* the files, as they are after any number of enacted records
FileSound == SoundView(file, fidx, [t \in Tiers |-> IF fhdr[t].f = 0 THEN 1 ELSE fhdr[t].f], [t \in Tiers |-> fhdr[t].l])

\* the index and the chains describe exactly the logical content
ContentOK == \A k \in Keys :
    /\ (idx[k].t = 0) = (val[k].t = 0)
    /\ idx[k].t # 0 => idx[k].t = val[k].t /\ Len(Live(cur, idx, idx[k].t)[k]) = val[k].n
    \* counting column: a key is stored exactly while its count is positive
    /\ RC => ((cnt[k] > 0) = (idx[k].t # 0))

\* storage is released and reused: a table never holds more slots than were live at once after some operation
NoBloat == \A t \in Tiers : mem[t].f - 1 <= peak[t]

TypeOK == /\ \A t \in Tiers : mem[t].f \in 1..(MaxSlot + 1) /\ mem[t].l \in 0..MaxSlot
          /\ nops \in 0..MaxOps /\ Len(log) <= MaxLog

----------------------------------------------------------------------------
(* generation for the replay *)
W(p) == RandomElement(1..100) <= p
Present == {k \in Keys : idx[k].t # 0}
Stutter(a) == UNCHANGED <<mem, cur, idx, w, iw, nops, log, file, fhdr, fidx, val, valc, cnt, cntc, valf, cntf, unsyn, peak, tags>> /\ Rec(a, 0, NoKind)
GenNext ==
    IF nops > 0 /\ (nops = MaxOps \/ W(55)) THEN EndRecord
    ELSE IF nops = 0 /\ log # <<>> /\ (Len(log) = MaxLog \/ W(30)) THEN Enact
    ELSE IF nops = 0 /\ W(7) THEN (\E j \in {RandomElement(0..unsyn)} : CrashJ(j))
    ELSE IF nops = 0 /\ log = <<>> /\ W(10) THEN Stutter("clean")
    ELSE IF Present # {} /\ W(30) THEN Remove(RandomElement(Present))
    ELSE IF RC THEN \E k \in {RandomElement(Keys)} : Set(k, KindOf(k))
    ELSE \E k \in {RandomElement(Keys)} : \E kind \in {RandomElement(Kinds)} :
           \* replacing a value by one in the same table is the interesting case: half of the time
           IF idx[k].t # 0 /\ W(50) THEN \E k2 \in {RandomElement({x \in Kinds : x.t = idx[k].t})} : Set(k, k2)
           ELSE Set(k, kind)
GenSpec == Init /\ [][GenNext]_vars
EmitTrace == Len(hist) < GenLen \/ PrintT("REPLAY " \o ToJson([steps |-> hist, tags |-> tags]))
=============================================================================
