\* behaviours for the replay (the code's ORDER) in which a third of the commits hold 2..6 operations
CONSTANTS
  ORDER = 8
  NK = 160
  KeepHist = TRUE
  GrowLen = 90
  AscSizes = {}
  Mut = {}
  BatchPct = 35
  GenLen = 220
SPECIFICATION GenSpec
INVARIANTS EmitTrace
CHECK_DEADLOCK FALSE
