\* necessity: the tail of a longer replaced chain is not cleared - the invariants must fail
CONSTANTS
  NK = 2
  NT = 2
  Parts = {2, 3}
  MaxSlot = 9
  MaxOps = 2
  MaxLog = 1
  KeepHist = FALSE
  GenLen = 0
  Mut = {"no_trim"}
SPECIFICATION Spec
VIEW View
CONSTRAINT Bounded
INVARIANTS TypeOK Sound FileSound ContentOK NoBloat
CHECK_DEADLOCK FALSE
