\* behaviours for the replay: two fixed-size tables and the multipart table with the part counts real values have
\* (a value of more than 32 732 bytes takes at least 9 parts of 4 KiB)
CONSTANTS
  NK = 5
  NT = 3
  Parts = {9, 10, 12}
  MaxSlot = 90
  MaxOps = 3
  MaxLog = 3
  RC = TRUE
  KeepHist = TRUE
  GenLen = 120
  Mut = {}
SPECIFICATION GenSpec
INVARIANTS EmitTrace
CHECK_DEADLOCK FALSE
