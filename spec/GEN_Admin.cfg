CONSTANTS
  MaxCols = 3
  NKeys = 2
  NVals = 2
  MinCols = 1
  GenLen = 16
SPECIFICATION GenSpec
INVARIANTS TypeOK EmitTrace
CHECK_DEADLOCK FALSE
