------------------------------ MODULE Migrate ------------------------------
(***************************************************************************)
(* C20: migration of hash columns to a configuration that differs in       *)
(* compression, preimage or reference-counting flags (src/migration.rs).   *)
(*                                                                         *)
(* The source is built by a history of set / reference / dereference       *)
(* operations; `migrate(from, to, overwrite, force)` re-populates the      *)
(* columns whose options differ (or that are forced) and copies the        *)
(* others.  The specification states what the destination must contain.    *)
(***************************************************************************)
EXTENDS Naturals, Sequences, FiniteSets, TLC, Json

CONSTANTS NCols, NKeys, MaxOps, GenLen

VARIABLES
    sopts,    \* options of the source columns
    src,      \* src[c][k] = [v, rc]   (rc = 1 for present keys of columns without counting)
    phase,    \* "build" | "migrated"
    dopts, params, dst, srcAfter,
    nops, trace

vars == <<sopts, src, phase, dopts, params, dst, srcAfter, nops, trace>>

Cols == 1..NCols
Keys == 1..NKeys
Absent == [v |-> 0, rc |-> 0]

\* hash-column option records that keep the hashing scheme: (preimage, rc, comp); the
\* uniform flag is shared by source and destination
HOpts == {o \in [preimage : BOOLEAN, rc : BOOLEAN, comp : 0..2] : o.rc => o.preimage}

Present(e) == e.rc > 0

\* effect of one operation on a column with / without counting (as in Pdb.tla)
Apply(o, e, t) ==
    IF o.rc
    THEN CASE t = "set" -> IF Present(e) THEN [e EXCEPT !.rc = @ + 1] ELSE [v |-> 1, rc |-> 1]
           [] t = "ref" -> IF Present(e) THEN [e EXCEPT !.rc = @ + 1] ELSE e
           [] t = "del" -> IF e.rc > 1 THEN [e EXCEPT !.rc = @ - 1] ELSE Absent
    ELSE CASE t = "set" -> [v |-> 1, rc |-> 1]
           [] t = "del" -> Absent
           [] OTHER -> e

Init ==
    /\ sopts \in [Cols -> HOpts]
    /\ src = [c \in Cols |-> [k \in Keys |-> Absent]]
    /\ phase = "build"
    /\ dopts = sopts /\ params = [overwrite |-> FALSE, force |-> {}, grow |-> FALSE, pending |-> FALSE]
    /\ dst = src /\ srcAfter = src
    /\ nops = 0 /\ trace = <<>>

Op(c, k, t) ==
    /\ phase = "build" /\ nops < MaxOps
    /\ (t = "ref") => sopts[c].rc
    /\ src' = [src EXCEPT ![c][k] = Apply(sopts[c], @, t)]
    /\ nops' = nops + 1
    /\ trace' = Append(trace, [a |-> "Op", c |-> c, k |-> k, t |-> t])
    /\ UNCHANGED <<sopts, phase, dopts, params, dst, srcAfter>>

\* what a destination column must hold for source content s: every key with its value;
\* the count carries over when the destination counts references, otherwise it is 1
Expected(dopt, s) ==
    [k \in Keys |-> IF Present(s[k]) THEN [v |-> s[k].v, rc |-> IF dopt.rc THEN s[k].rc ELSE 1]
                    ELSE Absent]

\* pending: the source was not closed cleanly, its last operations sit in synced write-ahead logs that the
\* migration's own open of the source replays; the required outcome is the same
Migrate(to, overwrite, force, grow, pending) ==
    /\ phase = "build"
    /\ to \in [Cols -> HOpts]
    /\ phase' = "migrated"
    /\ dopts' = to
    /\ params' = [overwrite |-> overwrite, force |-> force, grow |-> grow, pending |-> pending]
    /\ LET selected == {c \in Cols : to[c] # sopts[c]} \cup force IN
       /\ dst' = [c \in Cols |-> IF c \in selected THEN Expected(to[c], src[c]) ELSE src[c]]
       \* the source is unchanged unless in-place overwrite was requested, in which case it
       \* becomes the migrated database
       /\ srcAfter' = IF overwrite THEN dst' ELSE src
    /\ trace' = Append(trace, [a |-> "Migrate", sopts |-> sopts, to |-> to, overwrite |-> overwrite,
                               force |-> force, grow |-> grow, pending |-> pending, dst |-> dst', src_after |-> srcAfter'])
    /\ UNCHANGED <<sopts, src, nops>>

Next ==
    \/ \E c \in Cols, k \in Keys, t \in {"set", "del", "ref"} : Op(c, k, t)
    \/ \E to \in [Cols -> HOpts], ow \in BOOLEAN, f \in SUBSET Cols, g \in BOOLEAN, p \in BOOLEAN : Migrate(to, ow, f, g, p)

Spec == Init /\ [][Next]_vars

\* C20 on the specification itself: nothing is lost, nothing is invented, counts carry over
NoKeyLost ==
    phase = "migrated" =>
        \A c \in Cols, k \in Keys : Present(dst[c][k]) <=> Present(src[c][k])
CountsCarryOver ==
    phase = "migrated" =>
        \A c \in Cols, k \in Keys :
            (Present(src[c][k]) /\ dopts[c].rc /\ sopts[c].rc) => dst[c][k].rc = src[c][k].rc
SourceKept ==
    (phase = "migrated" /\ ~params.overwrite) => srcAfter = src

ViewNoTrace == <<sopts, src, phase, dopts, params, dst, srcAfter, nops>>

(* generation *)
Rand(S) == RandomElement({x \in S : nops >= 0})
GenNext ==
    \/ Op(Rand(Cols), Rand(Keys), Rand({"set", "set", "del", "ref"}))
    \/ (nops >= 2 /\ Migrate([c \in Cols |-> Rand(HOpts)], Rand(BOOLEAN), Rand(SUBSET Cols), Rand({FALSE, FALSE, TRUE}), Rand(BOOLEAN)))
GenInit == Init
GenSpec == GenInit /\ [][GenNext]_vars
EmitTrace == phase # "migrated" \/ PrintT("REPLAY " \o ToJson(trace))
=============================================================================
