\* behaviours for the replay: the code's ORDER
CONSTANTS
  ORDER = 8
  NK = 160
  KeepHist = TRUE
  GrowLen = 150
  AscSizes = {}
  Mut = {}
  BatchPct = 0
  GenLen = 300
SPECIFICATION GenSpec
INVARIANTS EmitTrace
CHECK_DEADLOCK FALSE
