\* necessity: a slot taken from the free list does not mark the header dirty - the invariants must fail
CONSTANTS
  NK = 2
  NT = 2
  Parts = {2, 3}
  MaxSlot = 9
  MaxOps = 2
  MaxLog = 1
  RC = FALSE
  KeepHist = FALSE
  GenLen = 0
  Mut = {"pop_not_dirty"}
SPECIFICATION Spec
VIEW View
CONSTRAINT Bounded
INVARIANTS TypeOK Sound FileSound ContentOK NoBloat
CHECK_DEADLOCK FALSE
