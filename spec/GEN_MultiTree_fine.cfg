SPECIFICATION GenSpec
CONSTANTS
  NT = 3
  NX = 1
  NV = 2
  MaxIds = 14
  MaxCommits = 9
  MaxLocks = 4
  MaxCrash = 0
  MaxDefers = 4
  RcRoots = FALSE
  AO = FALSE
  Fine = TRUE
  Fix = {"F18", "F20"}
  Mut = {}
  NoHist = FALSE
  Swap = FALSE
  Shapes <- ShapesWide
  GenLen = 30
  RejW = 6
  Pipes = {"flush", "enact", "clean"}
INVARIANTS TypeOK EmitTrace
CONSTRAINT DeferBound
CHECK_DEADLOCK FALSE
