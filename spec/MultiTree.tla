----------------------------- MODULE MultiTree -----------------------------
(***************************************************************************)
(* C10 / C11: multitree columns (db.rs commit_changes / process_commits /  *)
(* IndexedChangeSet::write_plan, column.rs claim_tree_values,               *)
(* write_address_inc_ref_plan / write_address_dec_ref_plan).                *)
(*                                                                         *)
(* A tree is a root (stored under its key) plus nodes (stored at value-    *)
(* table addresses claimed at COMMIT time).  Node ids 1..MaxIds stand for  *)
(* addresses; an id is never reused in the model (the harness keeps the    *)
(* id <-> address bijection and forgets an id when the model frees it).    *)
(*                                                                         *)
(* Implementation state (what the code does):                              *)
(*   roots, nrc, xs  : state after all PROCESSED commits (tables + log     *)
(*                     overlay); nrc[n] = 0 <=> node slot free             *)
(*   covlT, covlX    : commit overlay (entries tagged with commit ids)     *)
(*   queue, inflight : commit queue, commit taken by the log worker        *)
(*   toDeref, locked : reader registry (db.rs Trees)                       *)
(* Ghost state (what the property demands):                                *)
(*   ideal, idealX   : roots / plain keys after applying all transactions  *)
(*                     in the order their commit calls returned            *)
(*   conflict        : a deferred commit was moved behind a commit that    *)
(*                     writes the same key (known finding F3)              *)
(*   corrupt         : the implementation touched a freed node             *)
(***************************************************************************)
EXTENDS Naturals, Sequences, FiniteSets, TLC

CONSTANTS NT, NX, NV, MaxIds, MaxCommits, MaxLocks, MaxCrash,
          RcRoots,     \* column is ref_counted + preimage: roots carry a count
          AO,          \* append_only column: nothing is ever dereferenced, no node counts
          Fine,        \* TRUE: the log worker's deferral check and its plan are separate steps
          Fix,         \* subset of {"F18"}: repairs applied to the code
          Mut,         \* subset of {"no_inc", "no_defer", "no_used"}: guards dropped (necessity configs)
          NoHist,      \* TRUE: the action history (needed only to print behaviours for replay) is not kept
          Swap,        \* TRUE: an insertion may dereference another tree in the same transaction (insert the new
                       \* state, prune an old one)
          Shapes(_)    \* menu of child lists for a new tree, given the set of referable ids

TKeys == 1..NT
XKeys == 1..NX
Ids == 1..MaxIds
NoRoot == [rc |-> 0, data |-> 0, kids |-> <<>>]
NoTx == [cid |-> 0, tree |-> [t |-> "none"], set |-> [x |-> 0, v |-> 0], used |-> {}]

VARIABLES roots, nrc, nkids, xs, covlT, covlX, queue, inflight, toDeref, locked, snap,
          nextId, nextCid, ncommits, nlocks, ideal, idealX, conflictT, conflictX, corrupt,
          hdrMark, leaked, ncrash, wpend, hist

vars == <<roots, nrc, nkids, xs, covlT, covlX, queue, inflight, toDeref, locked, snap,
          nextId, nextCid, ncommits, nlocks, ideal, idealX, conflictT, conflictX, corrupt,
          hdrMark, leaked, ncrash, wpend, hist>>

SeqSet(s) == {s[i] : i \in DOMAIN s}
Hist(r) == IF NoHist THEN hist ELSE Append(hist, r)

\* ids reachable from a set of ids through the (immutable) child lists
RECURSIVE ReachFrom(_, _)
ReachFrom(frontier, seen) ==
    IF frontier = {} THEN seen
    ELSE LET n == CHOOSE n \in frontier : TRUE IN
         ReachFrom((frontier \cup SeqSet(nkids[n])) \ (seen \cup {n}), seen \cup {n})
Reach(kids) == ReachFrom(SeqSet(kids), {})

VisibleRoot(k) == IF covlT[k].cid # 0 THEN covlT[k].root ELSE roots[k]
VisibleX(x) == IF covlX[x].cid # 0 THEN covlX[x].v ELSE xs[x]

\* nodes a client may name as existing children: nodes of trees that are live for the client,
\* and nodes of trees it holds a reader lock on
Refable == UNION {Reach(ideal[k].kids) : k \in {k \in TKeys : ideal[k].rc > 0}}
           \cup UNION {Reach(snap[k].kids) : k \in locked}

\* with the repair the log worker holds the tree's write lock from its deferral check to the end
\* of its plan; without it the lock is only taken for the walk itself (atomic inside Apply)
\* the trees a transaction dereferences: a DereferenceTree of its own, or the one an insertion carries along
DK(tx) == IF tx.tree.t = "ins" THEN tx.tree.dk ELSE 0
DerefKeys(tx) == (IF tx.tree.t = "deref" THEN {tx.tree.k} ELSE {}) \cup (IF DK(tx) # 0 THEN {DK(tx)} ELSE {})
WLocked == IF "F18" \in Fix /\ inflight # <<>> THEN DerefKeys(inflight[1]) ELSE {}

\* claim_tree_values: new nodes get ids in pre-order; existing children become increments
RECURSIVE Flat(_, _)
Flat(sh, nid) ==
    IF sh = <<>> THEN [kids |-> <<>>, new |-> <<>>, incs |-> <<>>, next |-> nid]
    ELSE LET c == Head(sh)
             first == IF c.new
                      THEN LET sub == Flat(c.kids, nid + 1) IN
                           [id |-> nid, new |-> <<[id |-> nid, kids |-> sub.kids]>> \o sub.new,
                            incs |-> sub.incs, next |-> sub.next]
                      ELSE [id |-> c.ref, new |-> <<>>, incs |-> <<c.ref>>, next |-> nid]
             rest == Flat(Tail(sh), first.next) IN
         [kids |-> <<first.id>> \o rest.kids, new |-> first.new \o rest.new,
          incs |-> first.incs \o rest.incs, next |-> rest.next]

Init ==
    /\ roots = [k \in TKeys |-> NoRoot] /\ nrc = [n \in Ids |-> 0] /\ nkids = [n \in Ids |-> <<>>]
    /\ xs = [x \in XKeys |-> 0]
    /\ covlT = [k \in TKeys |-> [cid |-> 0, root |-> NoRoot]]
    /\ covlX = [x \in XKeys |-> [cid |-> 0, v |-> 0]]
    /\ queue = <<>> /\ inflight = <<>>
    /\ toDeref = [k \in TKeys |-> 0] /\ locked = {} /\ snap = [k \in TKeys |-> NoRoot]
    /\ nextId = 1 /\ nextCid = 1 /\ ncommits = 0 /\ nlocks = 0
    /\ ideal = [k \in TKeys |-> NoRoot] /\ idealX = [x \in XKeys |-> 0]
    /\ conflictT = {} /\ conflictX = {} /\ corrupt = FALSE
    /\ hdrMark = 1 /\ leaked = {} /\ ncrash = 0 /\ wpend = <<>> /\ hist = <<>>

--------------------------------------------------------------------------
(* Client: commit_changes.  A transaction is one optional tree operation   *)
(* plus one optional plain write to the second column.                     *)

SetPart(x, v) == [x |-> x, v |-> v]
NoSet == [x |-> 0, v |-> 0]

\* root data is the commit id; node data is the node id (all distinct)
\* is_locked() of the reader lock is also true while the log worker holds the write lock
UsedNow == IF "no_used" \in Mut THEN {}
           ELSE {k2 \in TKeys : toDeref[k2] > 0 /\ k2 \in (locked \cup WLocked)}

\* `used`: the trees marked in used_trees (read from the registry a little BEFORE the commit is queued)
\* dk: 0, or the key of a tree that the same transaction dereferences (after the insertion)
CommitInsD(k, sh, st, used, dk) ==
    /\ ideal[k].rc = 0
    /\ k \notin locked     \* a key is not inserted again while a reader holds the old tree under it
    /\ dk # 0 => (Swap /\ ~AO /\ dk # k /\ ideal[dk].rc > 0 /\ VisibleRoot(dk).rc > 0)
    \* (bound by a quantifier: TLC evaluates a LET definition again at every use, which is quadratic for wide trees)
    /\ \E f \in {Flat(sh, nextId)} :
       LET root == [rc |-> 1, data |-> nextCid, kids |-> f.kids]
           tx == [cid |-> nextCid,
                  tree |-> [t |-> "ins", k |-> k, root |-> root, new |-> f.new,
                           incs |-> IF AO THEN <<>> ELSE f.incs,
                           dk |-> dk, dkids |-> IF dk = 0 THEN <<>> ELSE VisibleRoot(dk).kids],
                  set |-> st,
                  used |-> used] IN
       /\ f.next - 1 <= MaxIds
       \* (new nodes have the consecutive ids nextId .. f.next - 1, listed in that order)
       /\ nkids' = [n \in Ids |-> IF n >= nextId /\ n < f.next THEN f.new[n - nextId + 1].kids ELSE nkids[n]]
       /\ nrc' = [n \in Ids |-> IF n >= nextId /\ n < f.next THEN 1 ELSE nrc[n]]
       /\ nextId' = f.next
       /\ covlT' = [covlT EXCEPT ![k] = [cid |-> nextCid, root |-> root]]
       /\ ideal' = [j \in TKeys |-> IF j = k THEN root
                                    ELSE IF j = dk THEN (IF ideal[j].rc = 1 THEN NoRoot ELSE [ideal[j] EXCEPT !.rc = @ - 1])
                                    ELSE ideal[j]]
       /\ queue' = Append(queue, tx)
       /\ hist' = Hist([a |-> "Commit", tx |-> tx, sh |-> sh])
    /\ toDeref' = [j \in TKeys |-> IF j = dk THEN toDeref[j] + 1 ELSE toDeref[j]]
CommitInsU(k, sh, st, used) == CommitInsD(k, sh, st, used, 0)

TwoStep == Fine /\ "F20" \notin Fix

CommitIns(k, sh, st) == CommitInsU(k, sh, st, UsedNow)
\* (two-step: only the insertion whose registry read is pending can be queued, with the set read then)
InsNow(k, sh, st) ==
    IF TwoStep
    THEN wpend # <<>> /\ wpend[1].k = k /\ wpend[1].sh = sh /\ wpend[1].st = st /\ CommitInsU(k, sh, st, wpend[1].used)
    ELSE CommitIns(k, sh, st)

CommitDeref(k, st) ==
    /\ ~AO
    /\ ideal[k].rc > 0 /\ VisibleRoot(k).rc > 0
    /\ LET tx == [cid |-> nextCid, tree |-> [t |-> "deref", k |-> k, kids |-> VisibleRoot(k).kids],
                  set |-> st, used |-> {}] IN
       /\ queue' = Append(queue, tx)
       /\ hist' = Hist([a |-> "Commit", tx |-> tx, sh |-> <<>>])
    /\ toDeref' = [toDeref EXCEPT ![k] = @ + 1]
    /\ ideal' = [ideal EXCEPT ![k] = IF @.rc = 1 THEN NoRoot ELSE [@ EXCEPT !.rc = @ - 1]]
    /\ UNCHANGED <<nkids, nrc, nextId, covlT>>

CommitRef(k, st) ==
    /\ RcRoots /\ ~AO /\ ideal[k].rc > 0
    /\ LET tx == [cid |-> nextCid, tree |-> [t |-> "ref", k |-> k], set |-> st, used |-> {}] IN
       /\ queue' = Append(queue, tx)
       /\ hist' = Hist([a |-> "Commit", tx |-> tx, sh |-> <<>>])
    /\ ideal' = [ideal EXCEPT ![k].rc = @ + 1]
    /\ UNCHANGED <<nkids, nrc, nextId, covlT, toDeref>>

CommitSetOnly(st) ==
    /\ st.x # 0
    /\ LET tx == [cid |-> nextCid, tree |-> [t |-> "none"], set |-> st, used |-> {}] IN
       /\ queue' = Append(queue, tx)
       /\ hist' = Hist([a |-> "Commit", tx |-> tx, sh |-> <<>>])
    /\ UNCHANGED <<nkids, nrc, nextId, covlT, toDeref, ideal>>

\* what every accepted commit_changes call does besides its tree operation
CommitCommon(st) ==
    /\ covlX' = IF st.x = 0 THEN covlX ELSE [covlX EXCEPT ![st.x] = [cid |-> nextCid, v |-> st.v]]
    /\ idealX' = IF st.x = 0 THEN idealX ELSE [idealX EXCEPT ![st.x] = st.v]
    /\ nextCid' = nextCid + 1 /\ ncommits' = ncommits + 1
    /\ UNCHANGED <<roots, xs, inflight, locked, snap, nlocks, conflictT, conflictX, corrupt, hdrMark, leaked, ncrash>>

Commit ==
    /\ ncommits < MaxCommits
    /\ \E st \in {NoSet} \cup {SetPart(x, v) : x \in XKeys, v \in 1..NV} :
       /\ \/ (\E k \in TKeys : \E sh \in Shapes(Refable) : InsNow(k, sh, st)) /\ wpend' = <<>>
          \/ (Swap /\ ~TwoStep /\ \E k \in TKeys, dk \in TKeys : \E sh \in Shapes(Refable) : CommitInsD(k, sh, st, UsedNow, dk)) /\ wpend' = <<>>
          \/ (\E k \in TKeys : CommitDeref(k, st)) /\ UNCHANGED wpend
          \/ (\E k \in TKeys : CommitRef(k, st)) /\ UNCHANGED wpend
          \/ CommitSetOnly(st) /\ UNCHANGED wpend
       /\ CommitCommon(st)

\* Before the repair 6c749ae (F20) a tree insertion read the registry (used_trees) first and was
\* queued later: another client's dereference could be committed in between.
BeginIns(k, sh, st) ==
    /\ TwoStep /\ wpend = <<>> /\ ncommits < MaxCommits
    /\ ideal[k].rc = 0 /\ k \notin locked
    /\ wpend' = <<[k |-> k, sh |-> sh, st |-> st, used |-> UsedNow]>>
    /\ hist' = Hist([a |-> "BeginIns", k |-> k])
    /\ UNCHANGED <<roots, nrc, nkids, xs, covlT, covlX, queue, inflight, toDeref, locked, snap, nextId, nextCid,
                   ncommits, nlocks, ideal, idealX, conflictT, conflictX, corrupt, hdrMark, leaked, ncrash>>

--------------------------------------------------------------------------
(* Readers: get_tree(..).read() + get_root() under the lock                *)

Lock(k) ==
    /\ k \notin locked /\ nlocks < MaxLocks /\ VisibleRoot(k).rc > 0
    /\ k \notin WLocked
    /\ locked' = locked \cup {k} /\ snap' = [snap EXCEPT ![k] = VisibleRoot(k)]
    /\ nlocks' = nlocks + 1
    /\ hist' = Hist([a |-> "Lock", k |-> k])
    /\ UNCHANGED <<roots, nrc, nkids, xs, covlT, covlX, queue, inflight, toDeref, nextId, nextCid,
                   ncommits, ideal, idealX, conflictT, conflictX, corrupt, hdrMark, leaked, ncrash, wpend>>

Unlock(k) ==
    /\ k \in locked
    /\ locked' = locked \ {k} /\ snap' = [snap EXCEPT ![k] = NoRoot]
    /\ hist' = Hist([a |-> "Unlock", k |-> k])
    /\ UNCHANGED <<roots, nrc, nkids, xs, covlT, covlX, queue, inflight, toDeref, nextId, nextCid,
                   ncommits, nlocks, ideal, idealX, conflictT, conflictX, corrupt, hdrMark, leaked, ncrash, wpend>>

--------------------------------------------------------------------------
(* Log worker: process_commits                                             *)

TreeKeyOf(tx) == IF tx.tree.t = "none" THEN {} ELSE {tx.tree.k} \cup DerefKeys(tx)
conflict == conflictT # {} \/ conflictX # {}

MustDefer(tx, rest) ==
    /\ "no_defer" \notin Mut
    /\ \E dk \in DerefKeys(tx) :
          \/ dk \in locked
          \/ \E i \in DOMAIN rest : dk \in rest[i].used

\* defer_commit: the whole commit goes to the back under a fresh id; its overlay entries are
\* written again under the new id (over whatever is there) and the old-id entries removed
\* (the decision and its effect are separate operators: the trace specification of free-running threads
\* places the decision between two hook events)
DeferEffect ==
    /\ queue # <<>> /\ inflight = <<>>
    /\ LET tx == Head(queue)
           rest == Tail(queue)
           tx2 == [tx EXCEPT !.cid = nextCid] IN
       /\ rest # <<>>               \* alone in the queue: same id, nothing changes (the worker spins)
       /\ queue' = Append(rest, tx2)
       /\ covlX' = IF tx.set.x = 0 THEN covlX ELSE [covlX EXCEPT ![tx.set.x] = [cid |-> nextCid, v |-> tx.set.v]]
       \* (an insertion that is postponed because of the dereference it carries: its root entry is written again, too)
       /\ covlT' = IF tx.tree.t = "ins" THEN [covlT EXCEPT ![tx.tree.k] = [cid |-> nextCid, root |-> tx.tree.root]] ELSE covlT
       /\ conflictT' = conflictT \cup {k \in TreeKeyOf(tx) : \E i \in DOMAIN rest : k \in TreeKeyOf(rest[i])}
       /\ conflictX' = conflictX \cup {x \in XKeys : x = tx.set.x /\ \E i \in DOMAIN rest : rest[i].set.x = x}
       /\ hist' = Hist([a |-> "Defer", cid |-> tx.cid, ncid |-> nextCid])
    /\ nextCid' = nextCid + 1
    /\ UNCHANGED <<roots, nrc, nkids, xs, inflight, toDeref, locked, snap, nextId, ncommits,
                   nlocks, ideal, idealX, corrupt, hdrMark, leaked, ncrash, wpend>>

Defer == queue # <<>> /\ MustDefer(Head(queue), Tail(queue)) /\ DeferEffect

\* dereference walk: children in order; a node with one reference is freed and its children walked
RECURSIVE Walk(_, _)
Walk(kids, st) ==
    IF kids = <<>> THEN st
    ELSE LET n == Head(kids) IN
         IF st.rc[n] = 0 THEN Walk(Tail(kids), [st EXCEPT !.bad = TRUE])
         ELSE IF st.rc[n] > 1 THEN Walk(Tail(kids), [st EXCEPT !.rc[n] = @ - 1])
         ELSE Walk(Tail(kids), Walk(nkids[n], [st EXCEPT !.rc[n] = 0]))

RECURSIVE IncAll(_, _)
IncAll(incs, st) ==
    IF incs = <<>> THEN st
    ELSE LET n == Head(incs) IN
         IF st.rc[n] = 0 THEN IncAll(Tail(incs), [st EXCEPT !.bad = TRUE])
         ELSE IncAll(Tail(incs), [st EXCEPT !.rc[n] = @ + 1])

\* the dereference walk takes the tree's write lock
WriteLockKeys(tx) == {dk \in DerefKeys(tx) : roots[dk].rc = 1}

PopOK(tx, rest) ==
    /\ ~MustDefer(tx, rest)
    /\ toDeref' = [j \in TKeys |-> IF j \in DerefKeys(tx) THEN toDeref[j] - 1 ELSE toDeref[j]]

ApplyTx(tx) ==
    LET t == tx.tree
        st0 == [rc |-> nrc, bad |-> FALSE]
        sti == IF t.t = "ins" THEN (IF "no_inc" \in Mut THEN st0 ELSE IncAll(t.incs, st0)) ELSE st0
        st1 == IF t.t = "ins" THEN (IF DK(tx) # 0 /\ roots[DK(tx)].rc = 1 THEN Walk(t.dkids, sti) ELSE sti)
               ELSE IF t.t = "deref" /\ roots[t.k].rc = 1 THEN Walk(t.kids, st0)
               ELSE st0 IN
    /\ roots' = IF t.t = "ins"
                THEN [j \in TKeys |-> IF j = t.k THEN (IF roots[j].rc = 0 THEN t.root
                                                        ELSE IF RcRoots THEN [roots[j] EXCEPT !.rc = @ + 1]
                                                        ELSE t.root)
                                      ELSE IF j = DK(tx) THEN (IF roots[j].rc <= 1 THEN NoRoot ELSE [roots[j] EXCEPT !.rc = @ - 1])
                                      ELSE roots[j]]
                ELSE IF t.t = "ref"
                THEN [roots EXCEPT ![t.k] = IF @.rc = 0 THEN @ ELSE [@ EXCEPT !.rc = @ + 1]]
                ELSE IF t.t = "deref"
                THEN [roots EXCEPT ![t.k] = IF @.rc <= 1 THEN NoRoot ELSE [@ EXCEPT !.rc = @ - 1]]
                ELSE roots
    /\ nrc' = st1.rc
    /\ corrupt' = (corrupt \/ st1.bad)
    /\ xs' = IF tx.set.x = 0 THEN xs ELSE [xs EXCEPT ![tx.set.x] = tx.set.v]
    \* clean_overlay: entries still tagged with this commit's id
    /\ covlT' = [k \in TKeys |-> IF covlT[k].cid = tx.cid THEN [cid |-> 0, root |-> NoRoot] ELSE covlT[k]]
    /\ covlX' = [x \in XKeys |-> IF covlX[x].cid = tx.cid THEN [cid |-> 0, v |-> 0] ELSE covlX[x]]

\* Fine: the deferral check (with the commit popped) ...
PopEffect ==
    /\ Fine /\ queue # <<>> /\ inflight = <<>>
    /\ toDeref' = [j \in TKeys |-> IF j \in DerefKeys(Head(queue)) THEN toDeref[j] - 1 ELSE toDeref[j]]
    /\ inflight' = <<Head(queue)>> /\ queue' = Tail(queue)
    /\ hist' = Hist([a |-> "Pop", cid |-> Head(queue).cid])
    /\ UNCHANGED <<roots, nrc, nkids, xs, covlT, covlX, locked, snap, nextId, nextCid, ncommits,
                   nlocks, ideal, idealX, conflictT, conflictX, corrupt, hdrMark, leaked, ncrash, wpend>>

Pop == queue # <<>> /\ ~MustDefer(Head(queue), Tail(queue)) /\ PopEffect

\* ... and the plan + end_record + overlay cleanup
Apply ==
    /\ Fine /\ inflight # <<>>
    /\ LET tx == inflight[1] IN
       /\ WriteLockKeys(tx) \cap locked = {}
       /\ ApplyTx(tx)
       /\ hist' = Hist([a |-> "Apply", cid |-> tx.cid])
    /\ inflight' = <<>>
    /\ hdrMark' = nextId
    /\ UNCHANGED <<nkids, queue, toDeref, locked, snap, nextId, nextCid, ncommits, nlocks, ideal,
                   idealX, conflictT, conflictX, leaked, ncrash, wpend>>

\* coarse: one process_commits() call of the stepping API
Process ==
    /\ ~Fine /\ queue # <<>> /\ inflight = <<>>
    /\ LET tx == Head(queue) IN
       /\ PopOK(tx, Tail(queue))
       /\ ApplyTx(tx)
       /\ hist' = Hist([a |-> "Process", cid |-> tx.cid])
    /\ queue' = Tail(queue)
    /\ hdrMark' = nextId
    /\ UNCHANGED <<nkids, inflight, locked, snap, nextId, nextCid, ncommits, nlocks, ideal, idealX,
                   conflictT, conflictX, leaked, ncrash, wpend>>

\* Process crash and recovery (all logged records survive and are replayed; queued commits are lost).
\* The value-table headers logged with every record carry the in-memory fill mark / free-list head,
\* i.e. also the slots claimed by commits that were still queued: after the crash those slots are
\* neither used nor free (hdrMark: ids below it are covered by a logged header).
QueuedNew == UNION {{e.id : e \in SeqSet(queue[i].tree.new)} : i \in {j \in DOMAIN queue : queue[j].tree.t = "ins"}}
Crash ==
    /\ ncrash < MaxCrash /\ inflight = <<>> /\ locked = {}
    /\ leaked' = leaked \cup {n \in QueuedNew : n < hdrMark}
    /\ nrc' = [n \in Ids |-> IF n \in QueuedNew THEN 0 ELSE nrc[n]]
    /\ queue' = <<>> /\ toDeref' = [k \in TKeys |-> 0]
    /\ covlT' = [k \in TKeys |-> [cid |-> 0, root |-> NoRoot]]
    /\ covlX' = [x \in XKeys |-> [cid |-> 0, v |-> 0]]
    \* (the client's view is re-based on what was recovered; keys touched by the known reordering stay marked)
    /\ ideal' = roots /\ idealX' = xs
    /\ ncrash' = ncrash + 1 /\ wpend' = <<>>
    /\ hist' = Hist([a |-> "Crash"])
    /\ UNCHANGED <<roots, nkids, xs, inflight, locked, snap, nextId, nextCid, ncommits, nlocks,
                   conflictT, conflictX, corrupt, hdrMark>>

Next == Commit \/ (\E k \in TKeys : \E sh \in Shapes(Refable) : \E st \in {NoSet} : BeginIns(k, sh, st)) \/ (\E k \in TKeys : Lock(k) \/ Unlock(k)) \/ Defer \/ Pop \/ Apply \/ Process \/ Crash

Spec == Init /\ [][Next]_vars

--------------------------------------------------------------------------
(* Properties *)

TypeOK ==
    /\ \A k \in TKeys : roots[k].rc \in Nat /\ toDeref[k] \in Nat
    /\ \A n \in Ids : nrc[n] \in Nat
    /\ Len(inflight) <= 1

\* C10/C11: the implementation never increments, decrements or walks a freed node
NoCorrupt == ~corrupt

\* The keys in conflictT / conflictX were written by a deferred commit that was moved behind a later
\* commit writing the same key (known finding F3): the properties are stated for all other keys.

\* C11: a locked reader sees the tree it locked, whole
ReaderStable ==
    \A k \in locked \ conflictT :
        /\ VisibleRoot(k).rc > 0
        /\ VisibleRoot(k).data = snap[k].data /\ VisibleRoot(k).kids = snap[k].kids
        /\ \A n \in Reach(snap[k].kids) : nrc[n] > 0

\* C10: a tree that is live for the client reads back exactly and completely
IdealVisible ==
    \A k \in TKeys \ conflictT : ideal[k].rc > 0 =>
        /\ VisibleRoot(k).data = ideal[k].data /\ VisibleRoot(k).kids = ideal[k].kids
        /\ \A n \in Reach(ideal[k].kids) : nrc[n] > 0

\* C01 for the plain column next to the trees
XVisible == \A x \in XKeys \ conflictX : VisibleX(x) = idealX[x]

Quiescent == queue = <<>> /\ inflight = <<>>
LiveIdeal == UNION {Reach(ideal[k].kids) : k \in {k \in TKeys : ideal[k].rc > 0}}

\* C10/C11: once everything is processed the state is the sequential one, and exactly the
\* reachable nodes occupy storage (no entries left when no tree is live)
FinalState ==
    Quiescent =>
        /\ \A k \in TKeys \ conflictT : roots[k] = ideal[k]
        /\ \A x \in XKeys \ conflictX : xs[x] = idealX[x]
        /\ conflictT = {} => {n \in Ids : nrc[n] > 0} = LiveIdeal
        /\ LiveIdeal \subseteq {n \in Ids : nrc[n] > 0}

\* the same without the allowance for the known deferral reordering: used to exhibit F3
FinalStateStrict ==
    Quiescent =>
        /\ \A k \in TKeys : roots[k] = ideal[k]
        /\ \A x \in XKeys : xs[x] = idealX[x]
        /\ {n \in Ids : nrc[n] > 0} = LiveIdeal

Entries == Cardinality({n \in Ids : nrc[n] > 0}) + Cardinality({k \in TKeys : roots[k].rc > 0}) + Cardinality(leaked)

\* C14: no slot is lost (violated by the claim mechanism across a crash: known finding F19)
NoLeak == leaked = {}

ViewNoHist == <<roots, nrc, nkids, xs, covlT, covlX, queue, inflight, toDeref, locked, snap,
                nextId, nextCid, ncommits, nlocks, ideal, idealX, conflictT, conflictX, corrupt, hdrMark, leaked, ncrash, wpend>>
=============================================================================
