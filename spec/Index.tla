------------------------------- MODULE Index -------------------------------
(***************************************************************************)
(* C09: the hash index of one column (column.rs, index.rs): index          *)
(* generations that grow by doubling, pages (chunks) of P entries, entries *)
(* that store only a prefix of the key hash (page bits + partial key) and  *)
(* the address of the value slot, which stores the rest of the key.        *)
(*                                                                         *)
(* Keys are 1..NK; Pfx[k] is the B-bit hash prefix the index can see.      *)
(* Keys with equal Pfx collide on every bit the index stores and are told  *)
(* apart only by the key tail kept in the value slot.                      *)
(*                                                                         *)
(* Operations are applied atomically (planning against the log overlay and *)
(* enactment are Pdb.tla's business): InsertNew, SetSame (replace in       *)
(* place), SetMove (value moves to another slot: old slot freed, new index *)
(* entry), Remove, ReindexBatch (migrate some pages of the oldest          *)
(* generation, drop it when done), Restart (generations rebuilt from the   *)
(* files present).                                                         *)
(***************************************************************************)
EXTENDS Naturals, Sequences, FiniteSets, TLC

CONSTANTS NK, B, Pfx, P, MaxSlots, BatchPages, MaxOps, Mut

Keys == 1..NK
Tiers == {1, 2}                         \* two value tables (size tiers)
NoAddr == <<0, 0>>
Nil == [pfx |-> 0, addr |-> NoAddr]     \* empty index slot

VARIABLES
    gens,     \* index generations, current first: Seq of [lvl, pages]; pages: [0..2^lvl-1 -> Seq(P) of entries]
    progress, \* pages of the oldest generation already migrated
    slot,     \* value tables: [Tiers \X 1..MaxSlots -> key | 0 (free / never used)]
    freeList, \* per tier: LIFO list of released slots
    filled,   \* per tier: slots ever handed out
    live,     \* live keys
    ovf,      \* an insertion met a full page at the deepest level the model has (outside the model)
    nops

vars == <<gens, progress, slot, freeList, filled, live, ovf, nops>>

RECURSIVE Pow2(_)
Pow2(n) == IF n = 0 THEN 1 ELSE 2 * Pow2(n - 1)
PageOf(pfx, lvl) == pfx \div Pow2(B - lvl)
EmptyPages(lvl) == [p \in 0..(Pow2(lvl) - 1) |-> [i \in 1..P |-> Nil]]

Init ==
    /\ gens = <<[lvl |-> 0, pages |-> EmptyPages(0)]>>
    /\ progress = 0
    /\ slot = [a \in Tiers \X (1..MaxSlots) |-> 0]
    /\ freeList = [t \in Tiers |-> <<>>] /\ filled = [t \in Tiers |-> 0]
    /\ live = {} /\ ovf = FALSE /\ nops = 0

\* index.get + value check: first entry (from sub-index s) of the key's page whose stored bits
\* match; the caller then compares the key tail in the value slot and continues on a mismatch
RECURSIVE FindIn(_, _, _, _)
FindIn(g, k, s, pg) ==
    IF s > P THEN 0
    ELSE IF pg[s].addr # NoAddr /\ pg[s].pfx = Pfx[k] /\ slot[pg[s].addr] = k THEN s
    ELSE FindIn(g, k, s + 1, pg)

\* search_all_indexes: current generation first, then the queued ones; <<generation, sub>> or <<0,0>>
RECURSIVE SearchFrom(_, _)
SearchFrom(k, gi) ==
    IF gi > Len(gens) THEN <<0, 0>>
    ELSE LET g == gens[gi]
             s == FindIn(g, k, 1, g.pages[PageOf(Pfx[k], g.lvl)]) IN
         IF s # 0 THEN <<gi, s>> ELSE SearchFrom(k, gi + 1)
Search(k) == SearchFrom(k, 1)
Lookup(k) == LET r == Search(k) IN
             IF r[1] = 0 THEN NoAddr ELSE gens[r[1]].pages[PageOf(Pfx[k], gens[r[1]].lvl)][r[2]].addr

\* next_free of a tier: reuse the last released slot, else extend
NextFree(t) == IF freeList[t] # <<>> THEN Head(freeList[t]) ELSE filled[t] + 1
\* free list / fill mark of tier t after taking a slot (fl, fi: current values)
TakeFl(fl, t) == IF fl[t] # <<>> THEN [fl EXCEPT ![t] = Tail(@)] ELSE fl
TakeFi(fl, fi, t) == IF fl[t] # <<>> THEN fi ELSE [fi EXCEPT ![t] = @ + 1]

FirstEmpty(pg) == IF \E i \in 1..P : pg[i].addr = NoAddr
                  THEN CHOOSE i \in 1..P : pg[i].addr = NoAddr /\ \A j \in 1..(i - 1) : pg[j].addr # NoAddr
                  ELSE 0

\* write_insert_plan into the current generation, growing the index (trigger_reindex) while the
\* page is full; gs = generations, returns the new generations
RECURSIVE InsertGrow(_, _, _)
InsertGrow(gs, pfx, addr) ==
    LET g == gs[1]
        p == PageOf(pfx, g.lvl)
        i == FirstEmpty(g.pages[p]) IN
    IF i # 0 THEN [gs EXCEPT ![1].pages[p][i] = [pfx |-> pfx, addr |-> addr]]
    ELSE IF g.lvl = B THEN gs      \* cannot grow further in the model (state constraint keeps this away)
    ELSE InsertGrow(<<[lvl |-> g.lvl + 1, pages |-> EmptyPages(g.lvl + 1)]>> \o gs, pfx, addr)

InCurrent(gs, pfx, addr) == \E i \in 1..P : gs[1].pages[PageOf(pfx, gs[1].lvl)][i] = [pfx |-> pfx, addr |-> addr]

InsertNew(k, t) ==
    /\ k \notin live /\ nops < MaxOps /\ NextFree(t) <= MaxSlots
    /\ LET a == <<t, NextFree(t)>> IN
       /\ slot' = [slot EXCEPT ![a] = k]
       /\ freeList' = TakeFl(freeList, t) /\ filled' = TakeFi(freeList, filled, t)
       /\ gens' = InsertGrow(gens, Pfx[k], a)
       /\ ovf' = (ovf \/ ~InCurrent(gens', Pfx[k], a))
    /\ live' = live \cup {k}
    /\ nops' = nops + 1
    /\ UNCHANGED progress

\* replace in place (same size tier): nothing moves
SetSame(k) ==
    /\ k \in live /\ nops < MaxOps
    /\ nops' = nops + 1
    /\ UNCHANGED <<gens, progress, slot, freeList, filled, live, ovf>>

\* the value moves to the other size tier: old slot released, new slot claimed; the index entry is
\* rewritten in place when it is in the current generation, otherwise a new entry is inserted into
\* the current generation (the stale one stays in the old generation)
SetMove(k) ==
    /\ k \in live /\ nops < MaxOps
    /\ LET r == Search(k)
           g == gens[r[1]]
           p == PageOf(Pfx[k], g.lvl)
           old == g.pages[p][r[2]].addr
           t == 3 - old[1]
           a == <<t, NextFree(t)>> IN
       /\ a[2] <= MaxSlots
       /\ slot' = [slot EXCEPT ![a] = k, ![old] = 0]
       /\ freeList' = [TakeFl(freeList, t) EXCEPT ![old[1]] = <<old[2]>> \o @]
       /\ filled' = TakeFi(freeList, filled, t)
       /\ IF r[1] = 1
          THEN gens' = [gens EXCEPT ![1].pages[p][r[2]] = [pfx |-> Pfx[k], addr |-> a]]
          ELSE IF "no_retry" \in Mut /\ FirstEmpty(gens[1].pages[PageOf(Pfx[k], gens[1].lvl)]) = 0
               THEN gens' = gens           \* (the defect fixed in a92aa7f: NeedReindex returned, nothing written)
               ELSE gens' = InsertGrow(gens, Pfx[k], a)
       /\ ovf' = (ovf \/ (~("no_retry" \in Mut) /\ ~InCurrent(gens', Pfx[k], a)))
    /\ nops' = nops + 1
    /\ UNCHANGED <<progress, live>>

\* remove: slot released, the entry cleared in the generation where it was found
Remove(k) ==
    /\ k \in live /\ nops < MaxOps
    /\ LET r == Search(k)
           g == gens[r[1]]
           p == PageOf(Pfx[k], g.lvl)
           a == g.pages[p][r[2]].addr IN
       /\ slot' = [slot EXCEPT ![a] = 0]
       /\ freeList' = [freeList EXCEPT ![a[1]] = <<a[2]>> \o @]
       /\ gens' = [gens EXCEPT ![r[1]].pages[p][r[2]] = Nil]
    /\ live' = live \ {k}
    /\ nops' = nops + 1
    /\ UNCHANGED <<progress, filled, ovf>>

\* reindex(): entries of the next BatchPages pages of the OLDEST generation are re-inserted into
\* the current one unless it already holds an entry with the same stored bits and address
\* (contains_partial_key_with_address); stale entries are copied as they are
Oldest == gens[Len(gens)]
EntriesOfPages(g, from, to) ==
    LET RECURSIVE Coll(_, _)
        Coll(p, i) == IF p > to THEN <<>>
                      ELSE IF i > P THEN Coll(p + 1, 1)
                      ELSE (IF g.pages[p][i].addr # NoAddr THEN <<g.pages[p][i]>> ELSE <<>>) \o Coll(p, i + 1)
    IN Coll(from, 1)
HasEntry(gs, e) == \E i \in 1..P : gs[1].pages[PageOf(e.pfx, gs[1].lvl)][i] = e
RECURSIVE ReinsertAll(_, _, _)
ReinsertAll(gs, es, i) ==
    IF i > Len(es) THEN gs
    ELSE ReinsertAll(IF HasEntry(gs, es[i]) THEN gs ELSE InsertGrow(gs, es[i].pfx, es[i].addr), es, i + 1)

ReindexBatch ==
    /\ Len(gens) > 1
    /\ LET src == Oldest
           npages == Pow2(src.lvl)
           to == IF progress + BatchPages > npages THEN npages ELSE progress + BatchPages
           es == EntriesOfPages(src, progress, to - 1)
           \* new generations may be pushed in front while re-inserting; the source stays last
           gs == ReinsertAll(gens, es, 1) IN
       /\ IF to = npages
          THEN gens' = SubSeq(gs, 1, Len(gs) - 1) /\ progress' = 0      \* drop_index
          ELSE gens' = gs /\ progress' = to
       /\ ovf' = (ovf \/ \E i \in 1..Len(es) : ~InCurrent(gs, es[i].pfx, es[i].addr))
    /\ UNCHANGED <<slot, freeList, filled, live, nops>>

\* reopen: generations are the index files present (nothing is lost: migration restarts)
Restart ==
    /\ progress # 0
    /\ progress' = 0
    /\ UNCHANGED <<gens, slot, freeList, filled, live, ovf, nops>>

Next ==
    \/ \E k \in Keys : (\E t \in Tiers : InsertNew(k, t)) \/ SetSame(k) \/ SetMove(k) \/ Remove(k)
    \/ ReindexBatch \/ Restart

Spec == Init /\ [][Next]_vars

\* C09: every live key resolves to its own value slot through some generation;
\* a key that is not live resolves to nothing
NoOverflow == ~ovf
Findable == ovf \/ \A k \in Keys : IF k \in live THEN Lookup(k) # NoAddr /\ slot[Lookup(k)] = k ELSE Lookup(k) = NoAddr
\* no value is stored twice, none leaked
OneSlotPerKey == \A k \in Keys : Cardinality({a \in Tiers \X (1..MaxSlots) : slot[a] = k}) = (IF k \in live THEN 1 ELSE 0)
\* generations strictly decrease in level from current to oldest
GensOrdered == \A i \in 1..(Len(gens) - 1) : gens[i].lvl > gens[i + 1].lvl
Bound == gens[1].lvl <= B
=============================================================================
