\* C15 as the code is written (Fix = {}): TLC finds the wake-up deadlocks (see DESIGN.md section 10)
CONSTANTS
  NClients = 2
  NCommits = 2
  MaxQ = 1
  MaxL = 1
  MaxLogs = 1
  MinLog = 0
  Faults = FALSE
  Fix = {}
SPECIFICATION Spec
INVARIANTS TypeOK AllPersisted
