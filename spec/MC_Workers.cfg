\* C15, the protocol as implemented (all three repairs are in the code): deadlock freedom
CONSTANTS
  NClients = 2
  NCommits = 2
  MaxQ = 1
  MaxL = 1
  MaxLogs = 1
  MinLog = 0
  Faults = TRUE
  Fix = {"S1", "S2", "S7"}
SPECIFICATION Spec
INVARIANTS TypeOK AllPersisted
