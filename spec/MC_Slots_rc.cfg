\* counting column: 3 keys with fixed kinds, counts up to 3, crash in every state
CONSTANTS
  NK = 3
  NT = 2
  Parts = {2, 3}
  MaxSlot = 9
  MaxOps = 2
  MaxLog = 1
  RC = TRUE
  KeepHist = FALSE
  GenLen = 0
  Mut = {}
SPECIFICATION Spec
VIEW View
CONSTRAINT BoundedRC
INVARIANTS TypeOK Sound FileSound ContentOK NoBloat
CHECK_DEADLOCK FALSE
