CONSTANTS
  NCols = 2
  NKeys = 3
  MaxOps = 9
  GenLen = 12
SPECIFICATION GenSpec
INVARIANTS EmitTrace NoKeyLost CountsCarryOver
CHECK_DEADLOCK FALSE
