\* C17: databases with 10..13 columns (metadata lines col10.. sort before col2 as text), mixed column kinds
CONSTANTS
  MaxCols = 13
  MinCols = 10
  NKeys = 2
  NVals = 2
  GenLen = 12
SPECIFICATION GenSpec
INVARIANTS TypeOK EmitTrace
CHECK_DEADLOCK FALSE
