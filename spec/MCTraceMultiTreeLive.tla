----------------------- MODULE MCTraceMultiTreeLive -----------------------
EXTENDS TraceMultiTreeLive
NoShapes(R) == {}
=============================================================================
