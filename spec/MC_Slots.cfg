\* every history of 2 keys over one fixed table and the multipart table (chains of 2 or 3 parts), commits of up to
\* 2 operations, one record logged and not enacted, crash in every state
CONSTANTS
  NK = 2
  NT = 2
  Parts = {2, 3}
  MaxSlot = 9
  MaxOps = 2
  MaxLog = 1
  RC = FALSE
  KeepHist = FALSE
  GenLen = 0
  Mut = {}
SPECIFICATION Spec
VIEW View
CONSTRAINT Bounded
INVARIANTS TypeOK Sound FileSound ContentOK NoBloat
CHECK_DEADLOCK FALSE
