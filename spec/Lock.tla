-------------------------------- MODULE Lock --------------------------------
(***************************************************************************)
(* C18: at most one live handle per database directory.                    *)
(*                                                                         *)
(* DbInner::open takes an exclusive flock on `<dir>/lock` (per open file   *)
(* description) before it looks at anything else, keeps it while the       *)
(* handle lives and releases it at the end of Drop; the kernel releases it *)
(* when the holding process dies.  Actors are handles opened by threads of *)
(* the harness process or by child processes (Child \subseteq Actors).     *)
(***************************************************************************)
EXTENDS Naturals, FiniteSets, Sequences, TLC, Json

CONSTANTS Actors, Child, GenLen

VARIABLES
    st,      \* [Actors -> "none" | "opening" | "open"]  ("opening": lock held, recovery running)
    holder,  \* the actor whose file description holds the flock, 0 = nobody
    ver,     \* number of commits made through live handles (what the files contain)
    seen,    \* [Actors -> ver observed when the handle was opened]
    ro,      \* actors whose handle was opened read-only (same exclusive lock; they do not commit)
    created, \* the database exists (open / open_read_only need that)
    kept,    \* actors whose client keeps an object obtained from its handle (a tree reader from get_tree, which shares
             \* the handle's internals) - possibly beyond the life of the handle
    hasTree, \* a tree was committed through some handle (get_tree answers for existing trees only)
    trace

vars == <<st, holder, ver, seen, ro, created, kept, hasTree, trace>>

Live == {a \in Actors : st[a] \in {"opening", "open"}}

Init ==
    /\ st = [a \in Actors |-> "none"]
    /\ holder = 0 /\ ver = 0
    /\ seen = [a \in Actors |-> 0]
    /\ ro = {} /\ created = FALSE
    /\ kept = {} /\ hasTree = FALSE
    /\ trace = <<>>

Log(e) == trace' = Append(trace, e)

\* try_lock_exclusive succeeds: from here on every other open must fail
OpenBegin(a) ==
    /\ st[a] = "none" /\ holder = 0
    /\ st' = [st EXCEPT ![a] = "opening"]
    /\ holder' = a
    /\ created' = TRUE
    /\ UNCHANGED <<ver, seen, ro, kept, hasTree>>
    /\ Log([a |-> "OpenBegin", actor |-> a])

\* log replay done, handle returned
OpenEnd(a) ==
    /\ st[a] = "opening"
    /\ st' = [st EXCEPT ![a] = "open"]
    /\ seen' = [seen EXCEPT ![a] = ver]
    /\ UNCHANGED <<holder, ver, ro, created, kept, hasTree>>
    /\ Log([a |-> "OpenEnd", actor |-> a, ver |-> ver])

\* an open attempt while somebody holds the lock: Error::Locked, nothing changes
OpenFail(a) ==
    /\ st[a] = "none" /\ holder # 0
    /\ UNCHANGED <<st, holder, ver, seen, ro, created, kept, hasTree>>
    /\ Log([a |-> "OpenFail", actor |-> a])

Commit(a) ==
    /\ st[a] = "open" /\ a \notin ro
    /\ ver' = ver + 1
    /\ UNCHANGED <<st, holder, seen, ro, created, kept, hasTree>>
    /\ Log([a |-> "Commit", actor |-> a, ver |-> ver + 1])

\* Drop for Db: everything persisted, then unlock
Drop(a) ==
    /\ st[a] = "open"
    /\ st' = [st EXCEPT ![a] = "none"]
    /\ holder' = 0
    /\ ro' = ro \ {a}
    \* (objects the client still keeps do not keep the directory locked: the lock goes with the handle)
    /\ UNCHANGED <<ver, seen, created, kept, hasTree>>
    /\ Log([a |-> "Drop", actor |-> a])

\* the holding process is killed: the kernel drops the lock
Die(a) ==
    /\ a \in Child /\ st[a] \in {"opening", "open"}
    /\ st' = [st EXCEPT ![a] = "none"]
    /\ holder' = 0
    /\ ro' = ro \ {a}
    /\ UNCHANGED <<ver, seen, created, kept, hasTree>>
    /\ Log([a |-> "Die", actor |-> a])

\* the client obtains a tree reader from its handle (a writable handle commits the tree first if there is none) and
\* keeps it; it may give it back at any later time, also after the handle is gone
Keep(a) ==
    /\ st[a] = "open" /\ a \notin Child /\ a \notin kept
    /\ hasTree \/ a \notin ro
    /\ kept' = kept \cup {a} /\ hasTree' = TRUE
    /\ UNCHANGED <<st, holder, ver, seen, ro, created>>
    /\ Log([a |-> "Keep", actor |-> a])
Release(a) ==
    /\ a \in kept
    /\ kept' = kept \ {a}
    /\ UNCHANGED <<st, holder, ver, seen, ro, created, hasTree>>
    /\ Log([a |-> "Release", actor |-> a])

Next ==
    \E a \in Actors : OpenBegin(a) \/ OpenEnd(a) \/ OpenFail(a) \/ Commit(a) \/ Drop(a) \/ Die(a) \/ Keep(a) \/ Release(a)

Spec == Init /\ [][Next]_vars

AtMostOneLive == Cardinality(Live) <= 1
HolderIsLive == (holder # 0) <=> (Live = {holder})
\* after the handle is dropped (or its process died) the directory can be opened again
Reopenable == (Live = {}) => (\A a \in Actors : ENABLED OpenBegin(a))
FailedOpenChangesNothing == [][\A a \in Actors : OpenFail(a) => UNCHANGED <<st, holder, ver, seen, ro, created, kept, hasTree>>]_vars

ViewNoTrace == <<st, holder, ver, seen, ro, created, kept, hasTree>>
Bound == ver <= 3

(* generation: an open is one call in the implementation (OpenBegin;OpenEnd fused) *)
Modes == {"create", "write", "ro"}
ModeOK(m) == m = "create" \/ created
GenOpen(a, m) ==
    /\ st[a] = "none" /\ holder = 0 /\ ModeOK(m)
    /\ st' = [st EXCEPT ![a] = "open"] /\ holder' = a /\ seen' = [seen EXCEPT ![a] = ver]
    /\ ro' = IF m = "ro" THEN ro \cup {a} ELSE ro
    /\ created' = TRUE
    /\ UNCHANGED <<ver, kept, hasTree>>
    /\ Log([a |-> "Open", actor |-> a, ok |-> TRUE, ver |-> ver, mode |-> m])
GenOpenFail(a, m) ==
    /\ st[a] = "none" /\ holder # 0 /\ ModeOK(m)
    /\ UNCHANGED <<st, holder, ver, seen, ro, created, kept, hasTree>>
    /\ Log([a |-> "Open", actor |-> a, ok |-> FALSE, ver |-> ver, mode |-> m])
GenNext == \E a \in Actors : (\E m \in Modes : GenOpen(a, m) \/ GenOpenFail(a, m)) \/ Commit(a) \/ Drop(a) \/ Die(a) \/ Keep(a) \/ Release(a)
GenSpec == Init /\ [][GenNext]_vars
EmitTrace == TLCGet("level") < GenLen \/ PrintT("REPLAY " \o ToJson(trace))
=============================================================================
