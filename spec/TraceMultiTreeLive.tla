------------------------- MODULE TraceMultiTreeLive -------------------------
(***************************************************************************)
(* Trace validation of tree columns with the REAL worker threads running:  *)
(* a writer thread (inserts trees that reuse nodes of the previous tree,   *)
(* which it reads under a reader lock), a pruner thread (dereferences old  *)
(* trees) and reader threads (lock a tree, read all of it, unlock), while  *)
(* the background log worker processes / defers the commits.               *)
(*                                                                         *)
(* Events are ordered by the recorder's mutex.  Hook events are emitted at *)
(* their linearization points (CommitLin and Pop/Defer under the queue     *)
(* lock, EndRecord under the log-overlay lock: that is where the plan of   *)
(* the commit taken by the log worker becomes visible = the model's        *)
(* Apply).  The instant at which a reader obtains its lock lies in client  *)
(* code: it is bracketed by LockReq / LockAck events and the model's Lock  *)
(* step is a silent step somewhere in between (DoLock / DoMiss).           *)
(***************************************************************************)
EXTENDS MultiTree, Json, IOUtils

Rec == ndJsonDeserialize(IOEnv.TRACE)

VARIABLES l, pendL, missed, chk, pendU
tvars == <<vars, l, pendL, missed, chk, pendU>>

Ev == Rec[l]
IsEvent(e) == l <= Len(Rec) /\ Ev.e = e
Advance == l' = l + 1
Same == UNCHANGED <<roots, nrc, nkids, xs, covlT, covlX, queue, inflight, toDeref, locked, snap,
                    nextId, nextCid, ncommits, nlocks, ideal, idealX, conflictT, conflictX, corrupt,
                    hdrMark, leaked, ncrash, wpend>>
Silently == hist' = Hist([a |-> "x"]) /\ Same

RECURSIVE RefsOf(_)
RefsOf(sh) == IF sh = <<>> THEN {}
              ELSE (IF Head(sh).new THEN RefsOf(Head(sh).kids) ELSE {Head(sh).ref}) \cup RefsOf(Tail(sh))

TCommit ==
    /\ IsEvent("Commit")
    /\ Ev.cid = nextCid
    /\ LET st == [x |-> Ev.set.x, v |-> Ev.set.v]
           t == Ev.tree IN
       \* (used_trees is read under the queue lock, but a reader's Unlock is recorded a little after the lock was
       \* really released: any subset of the trees with a queued dereference is admitted, later Pop / Defer
       \* events decide)
       /\ CASE t.t = "ins" -> /\ RefsOf(t.sh) \subseteq Refable
                              /\ \E used \in SUBSET {k \in TKeys : toDeref[k] > 0} : CommitInsU(t.k, t.sh, st, used)
            [] t.t = "deref" -> CommitDeref(t.k, st)
            [] t.t = "ref" -> CommitRef(t.k, st)
            [] OTHER -> CommitSetOnly(st)
       /\ CommitCommon(st) /\ UNCHANGED wpend
    /\ Advance /\ UNCHANGED <<pendL, missed, chk, pendU>>

\* The log worker took the oldest commit (Pop, under the queue lock); its deferral check comes a little
\* later, without a hook of its own: a silent step (Decide) somewhere before the next event of this
\* commit, which is Defer (decision published under the queue lock) or BeginRecord.
NoChk == [cid |-> 0, st |-> "none"]
TPop == /\ IsEvent("Pop") /\ chk = NoChk /\ queue # <<>> /\ Head(queue).cid = Ev.cid
        /\ chk' = [cid |-> Ev.cid, st |-> "open"]
        /\ Silently /\ Advance /\ UNCHANGED <<pendL, missed, pendU>>
Decide == /\ chk.st = "open"
          /\ IF MustDefer(Head(queue), Tail(queue))
             THEN chk' = [chk EXCEPT !.st = "defer"] /\ Silently
             ELSE chk' = [chk EXCEPT !.st = "go"] /\ PopEffect
          /\ UNCHANGED <<l, pendL, missed, pendU>>
TDefer == /\ IsEvent("Defer") /\ chk.st = "defer" /\ chk.cid = Ev.cid
          /\ IF Ev.ncid = Ev.cid THEN Tail(queue) = <<>> /\ Silently
                                 ELSE nextCid = Ev.ncid /\ DeferEffect
          /\ chk' = NoChk
          /\ Advance /\ UNCHANGED <<pendL, missed, pendU>>
TBegin == /\ IsEvent("BeginRecord") /\ chk.st = "go" /\ chk' = NoChk
          /\ Silently /\ Advance /\ UNCHANGED <<pendL, missed, pendU>>
\* the record of the commit taken by the log worker is in the log overlay
TApply == /\ IsEvent("EndRecord")
          /\ IF inflight # <<>> THEN Apply ELSE Silently
          /\ Advance /\ UNCHANGED <<pendL, missed, chk, pendU>>

TLockReq == IsEvent("LockReq") /\ Ev.k \notin pendL /\ Ev.k \notin locked /\ pendL' = pendL \cup {Ev.k}
            /\ missed' = missed \ {Ev.k} /\ Silently /\ Advance /\ UNCHANGED <<chk, pendU>>
\* silent: the reader obtains the lock and sees the root / finds no tree
DoLock(k) == k \in pendL /\ Lock(k) /\ pendL' = pendL \ {k} /\ UNCHANGED <<l, missed, chk, pendU>>
DoMiss(k) == /\ k \in pendL /\ VisibleRoot(k).rc = 0
             /\ pendL' = pendL \ {k} /\ missed' = missed \cup {k} /\ Silently /\ UNCHANGED <<l, chk, pendU>>
TLockAck ==
    /\ IsEvent("LockAck")
    /\ IF Ev.live
       THEN Ev.k \in locked /\ Ev.k \notin pendL /\ snap[Ev.k].data = Ev.data /\ snap[Ev.k].kids = Ev.kids
       ELSE Ev.k \in missed
    /\ missed' = missed \ {Ev.k}
    /\ Silently /\ Advance /\ UNCHANGED <<pendL, chk, pendU>>
\* what the reader read under the lock: the tree it locked, whole
ReadOK ==
    /\ Ev.k \in locked
    /\ Ev.data = snap[Ev.k].data /\ Ev.kids = snap[Ev.k].kids
    /\ \A i \in DOMAIN Ev.nodes :
         LET n == Ev.nodes[i].id IN n \in Ids /\ nrc[n] > 0 /\ nkids[n] = Ev.nodes[i].kids
    /\ Reach(snap[Ev.k].kids) = {Ev.nodes[i].id : i \in DOMAIN Ev.nodes}
TRead == IsEvent("Read") /\ (ReadOK = TRUE) /\ Silently /\ Advance /\ UNCHANGED <<pendL, missed, chk, pendU>>
\* the reader drops its guard somewhere between UnlockReq and Unlock
TUnlockReq == /\ IsEvent("UnlockReq") /\ Ev.k \in locked /\ pendU' = pendU \cup {Ev.k}
              /\ Silently /\ Advance /\ UNCHANGED <<pendL, missed, chk>>
DoUnlock(k) == k \in pendU /\ Unlock(k) /\ pendU' = pendU \ {k} /\ UNCHANGED <<l, pendL, missed, chk>>
TUnlock == /\ IsEvent("Unlock") /\ Ev.k \notin pendU /\ Ev.k \notin locked
           /\ Silently /\ Advance /\ UNCHANGED <<pendL, missed, chk, pendU>>

\* everything processed, threads stopped: the full projection
FinalOK ==
    /\ queue = <<>> /\ inflight = <<>>
    /\ \A k \in TKeys :
         LET o == Ev.vis[k]  r == VisibleRoot(k) IN
         IF r.rc > 0 THEN o.live /\ o.data = r.data /\ o.kids = r.kids ELSE ~o.live
    /\ \A i \in DOMAIN Ev.nodes :
         LET n == Ev.nodes[i].id IN n \in Ids /\ nrc[n] > 0 /\ nkids[n] = Ev.nodes[i].kids
    /\ Ev.entries >= 0 => Ev.entries = Entries
    /\ \A i \in DOMAIN Ev.rc : LET n == Ev.rc[i].id IN n \in Ids /\ nrc[n] = Ev.rc[i].count
    /\ Ev.stray = 0 /\ (Ev.orphans >= 0 => Ev.orphans = Cardinality(leaked))
TFinal == IsEvent("Final") /\ (FinalOK = TRUE) /\ Silently /\ Advance /\ UNCHANGED <<pendL, missed, chk, pendU>>

TQuiet == IsEvent("CleanCovl") /\ Silently /\ Advance /\ UNCHANGED <<pendL, missed, chk, pendU>>

TraceNext == TCommit \/ TPop \/ Decide \/ TDefer \/ TBegin \/ TApply \/ TLockReq \/ TLockAck \/ TRead \/ TUnlockReq \/ TUnlock \/ TFinal \/ TQuiet
             \/ \E k \in TKeys : DoLock(k) \/ DoMiss(k) \/ DoUnlock(k)

TraceSpec == Init /\ l = 1 /\ pendL = {} /\ missed = {} /\ chk = NoChk /\ pendU = {} /\ TLCSet(42, 1) /\ [][TraceNext]_tvars

TraceView == <<ViewNoHist, l, pendL, missed, chk, pendU>>

\* the furthest event reached on any explored path (silent steps make the depth useless)
TrackL == IF l > TLCGet(42) THEN TLCSet(42, l) ELSE TRUE

TraceAccepted ==
    LET d == TLCGet(42) IN
    /\ PrintT("TRACE-RESULT matched=" \o ToString(d - 1) \o " total=" \o ToString(Len(Rec)))
    /\ IF d - 1 = Len(Rec) THEN TRUE
       ELSE /\ PrintT(<<"TRACE-FIRST-UNMATCHED", d, Rec[d]>>)
            /\ FALSE
=============================================================================
