//! Replays for the small specifications: Lock (C18), Admin (C17), Migrate (C20).

use crate::common::*;
use parity_db::{ColumnOptions, CompressionType, Db, Options};
use serde_json::{json, Value as J};
use std::collections::HashMap;
use std::io::{BufRead, BufReader, Write};
use std::path::{Path, PathBuf};
use std::process::{Child, Command, Stdio};

pub fn dir_fingerprint(dir: &Path) -> Vec<(String, u64, u64)> {
    let mut v = Vec::new();
    if let Ok(rd) = std::fs::read_dir(dir) {
        for e in rd.flatten() {
            if let Ok(bytes) = std::fs::read(e.path()) {
                v.push((e.file_name().to_string_lossy().to_string(), bytes.len() as u64, hash_bytes(&bytes)));
            }
        }
    }
    v.sort();
    v
}

pub fn hash_bytes(b: &[u8]) -> u64 {
    let mut h: u64 = 0xcbf29ce484222325;
    for x in b {
        h ^= *x as u64;
        h = h.wrapping_mul(0x100000001b3);
    }
    h
}

fn lock_options(dir: &Path) -> Options {
    // column 0: plain keys; column 1: trees (a tree reader obtained from a handle can outlive it)
    let mut o = Options::with_columns(dir, 2);
    o.columns[1].multitree = true;
    o.with_background_thread = false;
    o.always_flush = true;
    o
}

/// the three ways to obtain a handle
fn open_mode(dir: &Path, mode: &str) -> parity_db::Result<Db> {
    match mode {
        "write" => Db::open(&lock_options(dir)),
        "ro" => Db::open_read_only(&lock_options(dir)),
        _ => Db::open_or_create(&lock_options(dir)),
    }
}

/// child process of the lock replay: open, report, obey commands on stdin
pub fn cmd_lock_child(args: &HashMap<String, String>) -> i32 {
    let dir = PathBuf::from(&args["dir"]);
    let out = std::io::stdout();
    let db = match open_mode(&dir, args.get("mode").map(|s| s.as_str()).unwrap_or("create")) {
        Ok(db) => {
            println!("OK");
            out.lock().flush().unwrap();
            db
        },
        Err(parity_db::Error::Locked(_)) => {
            println!("LOCKED");
            out.lock().flush().unwrap();
            return 0
        },
        Err(e) => {
            println!("ERR {e}");
            out.lock().flush().unwrap();
            return 0
        },
    };
    let stdin = std::io::stdin();
    for line in stdin.lock().lines() {
        let line = line.unwrap_or_default();
        let mut it = line.split_whitespace();
        match it.next() {
            Some("commit") => {
                let k = it.next().unwrap_or("x").as_bytes().to_vec();
                let stage: u64 = it.next().and_then(|s| s.parse().ok()).unwrap_or(0);
                let r = db.commit(vec![(0u8, k.clone(), Some(k))]);
                drive_pipeline(&db, stage);
                println!("{}", if r.is_ok() { "DONE" } else { "FAIL" });
                out.lock().flush().unwrap();
            },
            Some("get") => {
                let k = it.next().unwrap_or("x").as_bytes().to_vec();
                println!("{}", if matches!(db.get(0, &k), Ok(Some(_))) { "YES" } else { "NO" });
                out.lock().flush().unwrap();
            },
            Some("drop") => {
                drop(db);
                println!("DROPPED");
                out.lock().flush().unwrap();
                return 0
            },
            _ => {},
        }
    }
    0
}

/// The handles of the lock replays have no worker threads: the holder of the lock moves its commit through the
/// pipeline itself, up to a stage chosen by the replay, so that the directory a refused open meets holds queued
/// commits only / an unsynced log / a synced log / applied tables and an emptied log file kept for reuse
fn drive_pipeline(db: &Db, stage: u64) {
    if stage >= 1 {
        let _ = db.process_commits();
    }
    if stage >= 2 {
        let _ = db.flush_logs();
    }
    if stage >= 3 {
        let _ = db.enact_logs();
        let _ = db.clean_logs();
    }
}

enum Handle {
    Local(Db),
    Remote(Child, BufReader<std::process::ChildStdout>),
}

fn read_line(r: &mut BufReader<std::process::ChildStdout>) -> String {
    let mut s = String::new();
    let _ = r.read_line(&mut s);
    s.trim().to_string()
}

/// `pdbh lock-replay --in F --out F --children "3"`
pub fn cmd_lock_replay(args: &HashMap<String, String>) -> i32 {
    let input = std::fs::read_to_string(&args["in"]).expect("read");
    let children: Vec<u64> = args.get("children").map(|s| s.split(',').filter_map(|x| x.parse().ok()).collect()).unwrap_or_default();
    let root = scratch_root();
    let exe = std::env::current_exe().unwrap();
    let mut outf = std::io::BufWriter::new(std::fs::File::create(&args["out"]).unwrap());
    let mut nviol = 0;
    for (idx, line) in input.lines().enumerate() {
        if line.trim().is_empty() {
            continue
        }
        let steps: J = serde_json::from_str(line).unwrap();
        let dir = fresh_dir(&root, &format!("l{idx}"));
        let mut handles: HashMap<u64, Handle> = HashMap::new();
        // tree readers the client keeps (declared after the handles: they are given back when the model says so,
        // or at the very end)
        let mut kept: HashMap<u64, _> = HashMap::new();
        let mut viol: Vec<J> = Vec::new();
        // keys committed through handles that were later dropped cleanly (must stay readable)
        let mut durable: Vec<String> = Vec::new();
        let mut pending: HashMap<u64, Vec<String>> = HashMap::new();
        let mut nontrivial = false;
        for (i, st) in steps.as_array().unwrap().iter().enumerate() {
            let a = st["a"].as_str().unwrap();
            let actor = st["actor"].as_u64().unwrap();
            let is_child = children.contains(&actor);
            let mut bad = |w: String| viol.push(json!({"step": i + 1, "a": a, "what": w}));
            match a {
                "Open" => {
                    let want = st["ok"].as_bool().unwrap();
                    let mode = st["mode"].as_str().unwrap_or("create").to_string();
                    let before = dir_fingerprint(&dir);
                    if !handles.is_empty() {
                        nontrivial = true;
                    }
                    let got: Result<Handle, String> = if is_child {
                        let mut ch = Command::new(&exe)
                            .args(["lock-child", "--dir", dir.to_str().unwrap(), "--mode", &mode])
                            .stdin(Stdio::piped())
                            .stdout(Stdio::piped())
                            .spawn()
                            .expect("spawn child");
                        let mut rd = BufReader::new(ch.stdout.take().unwrap());
                        let l = read_line(&mut rd);
                        if l == "OK" {
                            Ok(Handle::Remote(ch, rd))
                        } else {
                            let _ = ch.wait();
                            Err(l)
                        }
                    } else {
                        match catch(|| open_mode(&dir, &mode)) {
                            Ok(Ok(db)) => Ok(Handle::Local(db)),
                            Ok(Err(parity_db::Error::Locked(_))) => Err("LOCKED".into()),
                            Ok(Err(e)) => Err(format!("ERR {e}")),
                            Err(p) => Err(format!("PANIC {p}")),
                        }
                    };
                    match (want, got) {
                        (true, Ok(mut h)) => {
                            // everything committed through cleanly dropped handles is there
                            for k in durable.iter() {
                                let present = match &mut h {
                                    Handle::Local(db) => matches!(db.get(0, k.as_bytes()), Ok(Some(_))),
                                    Handle::Remote(ch, rd) => {
                                        let _ = writeln!(ch.stdin.as_mut().unwrap(), "get {k}");
                                        read_line(rd) == "YES"
                                    },
                                };
                                if !present {
                                    bad(format!("key {k} committed through a cleanly dropped handle is missing after reopen"));
                                }
                            }
                            handles.insert(actor, h);
                        },
                        (false, Err(e)) if e == "LOCKED" => {
                            let after = dir_fingerprint(&dir);
                            if after != before {
                                bad("a failed (locked) open modified the database directory".into());
                            }
                        },
                        (true, Err(e)) => bad(format!("open failed although no handle is alive: {e}")),
                        (false, Ok(h)) => {
                            bad("second handle opened while another one is alive (no lock error)".into());
                            handles.insert(actor + 1000, h);
                        },
                        (false, Err(e)) => bad(format!("open failed with {e}, expected a lock error")),
                    }
                },
                "Commit" => {
                    let key = format!("k{}_{}", actor, st["ver"].as_u64().unwrap());
                    let stage = (i as u64 + actor + idx as u64) % 4;
                    match handles.get_mut(&actor) {
                        Some(Handle::Local(db)) => {
                            if db.commit(vec![(0u8, key.as_bytes().to_vec(), Some(key.as_bytes().to_vec()))]).is_err() {
                                bad("commit failed".into());
                            }
                            drive_pipeline(db, stage);
                        },
                        Some(Handle::Remote(ch, rd)) => {
                            let _ = writeln!(ch.stdin.as_mut().unwrap(), "commit {key} {stage}");
                            if read_line(rd) != "DONE" {
                                bad("commit in child failed".into());
                            }
                        },
                        None => bad("harness: no handle".into()),
                    }
                    pending.entry(actor).or_default().push(key);
                },
                "Drop" => {
                    match handles.remove(&actor) {
                        Some(Handle::Local(db)) => drop(db),
                        Some(Handle::Remote(mut ch, mut rd)) => {
                            let _ = writeln!(ch.stdin.as_mut().unwrap(), "drop");
                            let _ = read_line(&mut rd);
                            let _ = ch.wait();
                        },
                        None => bad("harness: no handle".into()),
                    }
                    durable.extend(pending.remove(&actor).unwrap_or_default());
                },
                "Die" => {
                    match handles.remove(&actor) {
                        Some(Handle::Remote(mut ch, _)) => {
                            let _ = ch.kill();
                            let _ = ch.wait();
                        },
                        Some(Handle::Local(db)) => std::mem::forget(db),
                        None => bad("harness: no handle".into()),
                    }
                    pending.remove(&actor);
                },
                "Keep" => match handles.get(&actor) {
                    Some(Handle::Local(db)) => {
                        let tkey = b"tree".to_vec();
                        if matches!(db.get_tree(1, &tkey), Ok(None)) {
                            let node = parity_db::NewNode { data: vec![1, 2, 3], children: Vec::new() };
                            if db.commit_changes(vec![(1u8, parity_db::Operation::InsertTree(tkey.clone(), node))]).is_err() {
                                bad("harness: the tree could not be committed".into());
                            }
                            drive_pipeline(db, (i as u64 + idx as u64) % 4);
                        }
                        match db.get_tree(1, &tkey) {
                            Ok(Some(r)) => {
                                kept.insert(actor, r);
                            },
                            Ok(None) => bad("get_tree finds no tree although one was committed".into()),
                            Err(e) => bad(format!("get_tree: {e}")),
                        }
                    },
                    _ => bad("harness: Keep needs a handle of this process".into()),
                },
                "Release" => {
                    kept.remove(&actor);
                },
                other => bad(format!("harness: unknown step {other}")),
            }
            if !viol.is_empty() {
                break
            }
        }
        for (_, h) in handles.drain() {
            match h {
                Handle::Local(db) => drop(db),
                Handle::Remote(mut ch, _) => {
                    let _ = ch.kill();
                    let _ = ch.wait();
                },
            }
        }
        nviol += viol.len();
        writeln!(outf, "{}", json!({"i": idx, "nontrivial": nontrivial, "violations": viol})).unwrap();
        let _ = std::fs::remove_dir_all(&dir);
    }
    let _ = std::fs::remove_dir_all(&root);
    if nviol > 0 {
        1
    } else {
        0
    }
}

/// Concurrent opens of the same directory from several threads: exactly one may succeed.
/// `pdbh lock-race --rounds N`
pub fn cmd_lock_race(args: &HashMap<String, String>) -> i32 {
    let rounds: usize = args.get("rounds").map(|s| s.parse().unwrap()).unwrap_or(50);
    let root = scratch_root();
    let mut bad = 0;
    for r in 0..rounds {
        let dir = fresh_dir(&root, &format!("race{r}"));
        // create it first so that every racer takes the same path
        drop(Db::open_or_create(&lock_options(&dir)).unwrap());
        let barrier = std::sync::Arc::new(std::sync::Barrier::new(4));
        let mut hs = Vec::new();
        for t in 0..4usize {
            let d = dir.clone();
            let b = barrier.clone();
            hs.push(std::thread::spawn(move || {
                b.wait();
                // the racers use all three ways of opening (every third round: read-only only)
                let mode = if r % 3 == 2 { "ro" } else { ["write", "ro", "create", "ro"][(t + r) % 4] };
                let r = open_mode(&d, mode);
                b.wait();
                // all attempts are over before any handle is dropped
                r.is_ok()
            }));
        }
        let oks = hs.into_iter().map(|h| h.join().unwrap()).filter(|x| *x).count();
        if oks != 1 {
            bad += 1;
            println!("{}", json!({"round": r, "successful_opens": oks}));
        }
        let _ = std::fs::remove_dir_all(&dir);
    }
    let _ = std::fs::remove_dir_all(&root);
    println!("{}", json!({"rounds": rounds, "bad": bad}));
    if bad > 0 {
        1
    } else {
        0
    }
}

// ---------------------------------------------------------------------------
// Admin (C17)

pub fn opts_from_json(j: &J) -> ColumnOptions {
    ColumnOptions {
        preimage: j["preimage"].as_bool().unwrap(),
        uniform: j["uniform"].as_bool().unwrap(),
        ref_counted: j["rc"].as_bool().unwrap(),
        compression: match j["comp"].as_u64().unwrap() {
            1 => CompressionType::Lz4,
            2 => CompressionType::Snappy,
            _ => CompressionType::NoCompression,
        },
        btree_index: j["btree"].as_bool().unwrap(),
        multitree: j["multitree"].as_bool().unwrap(),
        append_only: j["append_only"].as_bool().unwrap(),
        allow_direct_node_access: j["direct"].as_bool().unwrap(),
    }
}

fn admin_options(dir: &Path, cols: &[ColumnOptions]) -> Options {
    let mut o = Options::with_columns(dir, 0);
    o.columns = cols.to_vec();
    o.with_background_thread = false;
    o.always_flush = true;
    o.stats = false;
    o
}

fn admin_key(opts: &ColumnOptions, k: u64) -> Vec<u8> {
    let mut key = vec![0x40 + k as u8; if opts.uniform { 32 } else { 5 }];
    key[0] = k as u8;
    key
}
fn admin_val(opts: &ColumnOptions, c: usize, k: u64, v: u64) -> Vec<u8> {
    if opts.preimage {
        let mut x = admin_key(opts, k);
        x.extend_from_slice(b"pre");
        x
    } else {
        // lengths spread over the size tiers (also tiers whose file name has a hex letter, and multi-part)
        let pad = [0usize, 9, 15, 35, 300, 2500, 9000, 40000][((c as u64 + k + v) % 8) as usize];
        let mut x = format!("c{c}k{k}v{v}|").into_bytes();
        x.extend(std::iter::repeat(0x5au8 ^ (k as u8)).take(pad));
        x
    }
}

/// files of column `c` in the database directory
fn column_files(dir: &Path, c: usize) -> Vec<String> {
    let mut v: Vec<String> = std::fs::read_dir(dir)
        .map(|rd| rd.flatten().map(|e| e.file_name().to_string_lossy().to_string()).collect())
        .unwrap_or_default();
    let pre = [format!("table_{c:02}_"), format!("index_{c:02}_"), format!("refcount_{c:02}_")];
    v.retain(|n| pre.iter().any(|p| n.starts_with(p)));
    v.sort();
    v
}

/// content of a plain (hash / btree) column: key rank -> value id
fn admin_project(db: &Db, cols: &[ColumnOptions], nkeys: u64, nvals: u64) -> Vec<Vec<i64>> {
    let mut out = Vec::new();
    for (c, o) in cols.iter().enumerate() {
        let mut row = Vec::new();
        if !o.multitree {
            for k in 1..=nkeys {
                let r = match db.get(c as u8, &admin_key(o, k)) {
                    Ok(None) => 0,
                    Ok(Some(b)) => (1..=nvals).find(|v| admin_val(o, c, k, *v) == b).map(|v| v as i64).unwrap_or(-1),
                    Err(_) => -3,
                };
                row.push(r);
            }
        }
        out.push(row);
    }
    out
}

/// `pdbh admin-replay --in F --out F`
/// steps: Create{cols}, Commit{c,k,v}, Pending (leave unprocessed logs: crash image), Close,
/// Open{cols, ok}, OpenMissing{variant}, AddColumn{opt}, DropLast, Reset{c, opt|null}, Clear{c};
/// each carries `content` = the model's expected content afterwards ([c][k] = value id).
pub fn cmd_admin_replay(args: &HashMap<String, String>) -> i32 {
    let input = std::fs::read_to_string(&args["in"]).expect("read");
    let root = scratch_root();
    let mut outf = std::io::BufWriter::new(std::fs::File::create(&args["out"]).unwrap());
    let mut nviol = 0;
    let nkeys = 2u64;
    let nvals = 2u64;
    for (idx, line) in input.lines().enumerate() {
        if line.trim().is_empty() {
            continue
        }
        let steps: J = serde_json::from_str(line).unwrap();
        let mut dir = fresh_dir(&root, &format!("a{idx}"));
        let _ = std::fs::remove_dir_all(&dir);
        let mut cols: Vec<ColumnOptions> = Vec::new();
        let mut viol: Vec<J> = Vec::new();
        let mut gen = 0;
        for (i, st) in steps.as_array().unwrap().iter().enumerate() {
            let a = st["a"].as_str().unwrap();
            let mut bad = |w: String| viol.push(json!({"step": i + 1, "a": a, "what": w}));
            let parse_cols = |j: &J| -> Vec<ColumnOptions> { j.as_array().unwrap().iter().map(opts_from_json).collect() };
            let r: Result<(), String> = (|| {
                match a {
                    "Create" => {
                        cols = parse_cols(&st["cols"]);
                        let db = catch(|| Db::open_or_create(&admin_options(&dir, &cols))).map_err(|p| format!("panic: {p}"))?.map_err(|e| format!("create: {e}"))?;
                        drop(db);
                        // metadata round trip: what was written reads back as the same options
                        let meta = Options::load_metadata(&dir).map_err(|e| format!("load_metadata: {e}"))?.ok_or("no metadata written")?;
                        if meta.columns != cols {
                            return Err(format!("metadata round trip changed the options: wrote {:?} read {:?}", cols, meta.columns))
                        }
                    },
                    "Commit" | "Pending" => {
                        let db = catch(|| Db::open(&admin_options(&dir, &cols))).map_err(|p| format!("panic: {p}"))?.map_err(|e| format!("open: {e}"))?;
                        if let Some(ops) = st.get("ops").and_then(|x| x.as_array()) {
                            for op in ops {
                                let c = op["c"].as_u64().unwrap() as usize - 1;
                                let k = op["k"].as_u64().unwrap();
                                let v = op["v"].as_u64().unwrap();
                                let val = if v == 0 { None } else { Some(admin_val(&cols[c], c, k, v)) };
                                db.commit(vec![(c as u8, admin_key(&cols[c], k), val)]).map_err(|e| format!("commit: {e}"))?;
                                if a == "Pending" {
                                    db.process_commits().map_err(|e| format!("{e}"))?;
                                    db.flush_logs().map_err(|e| format!("{e}"))?;
                                }
                            }
                        }
                        if a == "Pending" {
                            // the process dies with synced, unapplied logs: the directory as it is now
                            gen += 1;
                            let img = root.join(format!("a{idx}g{gen}"));
                            copy_dir(&dir, &img).map_err(|e| format!("image: {e}"))?;
                            drop(db);
                            let _ = std::fs::remove_dir_all(&dir);
                            dir = img;
                        } else {
                            drop(db);
                        }
                    },
                    "Open" => {
                        let req = parse_cols(&st["cols"]);
                        let want = st["ok"].as_bool().unwrap();
                        let before = dir_fingerprint(&dir);
                        let res = catch(|| Db::open(&admin_options(&dir, &req))).map_err(|p| format!("panic in open: {p}"))?;
                        match (want, res) {
                            (true, Ok(db)) => drop(db),
                            (false, Err(_)) => {
                                let after = dir_fingerprint(&dir);
                                let strip = |v: &Vec<(String, u64, u64)>| v.iter().filter(|x| x.0 != "lock").cloned().collect::<Vec<_>>();
                                if strip(&before) != strip(&after) {
                                    return Err("open with disagreeing options modified database files".into())
                                }
                            },
                            (true, Err(e)) => return Err(format!("open with the stored options failed: {e}")),
                            (false, Ok(db)) => {
                                drop(db);
                                return Err("open with options that disagree with the stored metadata succeeded".into())
                            },
                        }
                    },
                    "OpenMissing" => {
                        let variant = st["variant"].as_str().unwrap();
                        let d = root.join(format!("a{idx}missing"));
                        let _ = std::fs::remove_dir_all(&d);
                        if variant == "emptydir" {
                            std::fs::create_dir_all(&d).unwrap();
                        }
                        let c = vec![ColumnOptions::default()];
                        let res = catch(|| Db::open(&admin_options(&d, &c))).map_err(|p| format!("panic: {p}"))?;
                        let created: Vec<String> = std::fs::read_dir(&d).map(|rd| rd.flatten().map(|e| e.file_name().to_string_lossy().to_string()).collect()).unwrap_or_default();
                        let existed = d.exists();
                        let _ = std::fs::remove_dir_all(&d);
                        if res.is_ok() {
                            return Err("opening a missing database without create succeeded".into())
                        }
                        if variant == "absent" && existed {
                            return Err("opening a missing database without create created the directory".into())
                        }
                        if !created.is_empty() {
                            return Err(format!("opening a missing database ({variant}) without create created files: {:?}", created))
                        }
                    },
                    "AddColumn" => {
                        let mut o = admin_options(&dir, &cols);
                        let newc = opts_from_json(&st["opt"]);
                        catch(|| Db::add_column(&mut o, newc.clone())).map_err(|p| format!("panic: {p}"))?.map_err(|e| format!("add_column: {e}"))?;
                        cols.push(newc);
                    },
                    "DropLast" => {
                        let mut o = admin_options(&dir, &cols);
                        catch(|| Db::drop_last_column(&mut o)).map_err(|p| format!("panic: {p}"))?.map_err(|e| format!("drop_last_column: {e}"))?;
                        cols.pop();
                        let left = column_files(&dir, cols.len());
                        if !left.is_empty() {
                            return Err(format!("drop_last_column left files of the dropped column behind: {left:?}"))
                        }
                    },
                    "Reset" => {
                        let c = st["c"].as_u64().unwrap() as usize - 1;
                        let newo = st["opt"].as_array().and_then(|a| a.first()).map(opts_from_json);
                        let mut o = admin_options(&dir, &cols);
                        catch(|| Db::reset_column(&mut o, c as u8, newo.clone())).map_err(|p| format!("panic: {p}"))?.map_err(|e| format!("reset_column: {e}"))?;
                        let left = column_files(&dir, c);
                        if !left.is_empty() {
                            return Err(format!("reset_column left files of the column behind: {left:?}"))
                        }
                        if let Some(n) = newo {
                            cols[c] = n;
                        }
                    },
                    "Clear" => {
                        let c = st["c"].as_u64().unwrap() as usize - 1;
                        catch(|| parity_db::clear_column(&dir, c as u8)).map_err(|p| format!("panic: {p}"))?.map_err(|e| format!("clear_column: {e}"))?;
                        let left = column_files(&dir, c);
                        if !left.is_empty() {
                            return Err(format!("clear_column left files of the column behind: {left:?}"))
                        }
                    },
                    other => return Err(format!("harness: unknown step {other}")),
                }
                Ok(())
            })();
            if let Err(e) = r {
                bad(e);
                break
            }
            // expected content
            if let Some(content) = st.get("content").and_then(|c| c.as_array()) {
                // (after `Pending` the logs must stay pending for the next step: no open here)
                if a != "OpenMissing" && a != "Pending" {
                    match catch(|| Db::open(&admin_options(&dir, &cols))) {
                        Ok(Ok(db)) => {
                            let got = admin_project(&db, &cols, nkeys, nvals);
                            // value iteration of plain hash columns yields exactly the live keys
                            let mut iter_bad: Option<String> = None;
                            for (c, o) in cols.iter().enumerate() {
                                if o.multitree || o.btree_index || o.ref_counted {
                                    continue
                                }
                                let mut n = 0usize;
                                if db.iter_column_while(c as u8, |_| {
                                    n += 1;
                                    true
                                })
                                .is_ok()
                                {
                                    let live = got[c].iter().filter(|x| **x != 0).count();
                                    if n != live {
                                        iter_bad = Some(format!("column {c} after {a}: value iteration yields {n} values, {live} keys are readable"));
                                    }
                                }
                            }
                            drop(db);
                            if let Some(e) = iter_bad {
                                bad(e);
                                break
                            }
                            let want: Vec<Vec<i64>> = content.iter().map(|r| r.as_array().unwrap().iter().map(|x| x.as_i64().unwrap()).collect()).collect();
                            let wantf: Vec<Vec<i64>> = want.iter().enumerate().map(|(c, r)| if cols.get(c).map_or(false, |o| o.multitree) { vec![] } else { r.clone() }).collect();
                            if got != wantf {
                                bad(format!("column contents after {a}: model {:?} implementation {:?}", wantf, got));
                                break
                            }
                        },
                        Ok(Err(e)) => {
                            bad(format!("open after {a} failed: {e}"));
                            break
                        },
                        Err(p) => {
                            bad(format!("panic in open after {a}: {p}"));
                            break
                        },
                    }
                }
            }
        }
        nviol += viol.len();
        writeln!(outf, "{}", json!({"i": idx, "nontrivial": true, "violations": viol})).unwrap();
        let _ = std::fs::remove_dir_all(&dir);
    }
    let _ = std::fs::remove_dir_all(&root);
    if nviol > 0 {
        1
    } else {
        0
    }
}

// ---------------------------------------------------------------------------
// Migrate (C20)

fn hopt(j: &J, uniform: bool) -> ColumnOptions {
    ColumnOptions {
        preimage: j["preimage"].as_bool().unwrap(),
        uniform,
        ref_counted: j["rc"].as_bool().unwrap(),
        compression: match j["comp"].as_u64().unwrap() {
            1 => CompressionType::Lz4,
            2 => CompressionType::Snappy,
            _ => CompressionType::NoCompression,
        },
        ..Default::default()
    }
}

fn mig_key(uniform: bool, c: usize, k: u64) -> Vec<u8> {
    if uniform {
        let mut key = vec![0u8; 32];
        key[0] = 0x5a;
        key[1] = 0x5a;
        key[2] = 0x80 | c as u8; // away from the ballast keys
        key[10] = k as u8;
        key
    } else {
        format!("mig-key-{c}-{k}").into_bytes()
    }
}

fn mig_val(uniform: bool, c: usize, k: u64) -> Vec<u8> {
    let mut v = b"value-of-".to_vec();
    v.extend_from_slice(&mig_key(uniform, c, k));
    // sizes spread over tiers, one multipart
    let pad = [0usize, 40, 900, 5000, 40_000][(k as usize + c) % 5];
    v.extend(std::iter::repeat(0x61 + k as u8).take(pad));
    v
}

fn ballast_key(i: u32) -> Vec<u8> {
    // 65 keys in one 16-bit index chunk (zero salt, uniform: identity hash)
    let mut key = vec![0u8; 32];
    key[0] = 0x5a;
    key[1] = 0x5a;
    key[2] = (i as u8) << 1;
    key[9] = 0xbb;
    key
}

/// content projection of a migrated database: [c][k] = (present, count or 1)
fn mig_project(db: &Db, cols: &[ColumnOptions], uniform: bool, nkeys: u64) -> Result<Vec<Vec<(i64, i64)>>, String> {
    let mut out = Vec::new();
    for (c, o) in cols.iter().enumerate() {
        let mut counts: HashMap<Vec<u8>, i64> = HashMap::new();
        if o.ref_counted {
            db.iter_column_while(c as u8, |st| {
                *counts.entry(st.value).or_insert(0) += st.rc as i64;
                true
            })
            .map_err(|e| format!("iter_column_while: {e}"))?;
        }
        let mut row = Vec::new();
        for k in 1..=nkeys {
            let want = mig_val(uniform, c, k);
            match db.get(c as u8, &mig_key(uniform, c, k)).map_err(|e| format!("get: {e}"))? {
                None => row.push((0, 0)),
                Some(v) if v == want => {
                    let rc = if o.ref_counted { *counts.get(&want).unwrap_or(&0) } else { 1 };
                    row.push((1, rc))
                },
                Some(v) => row.push((-1, v.len() as i64)),
            }
        }
        out.push(row);
    }
    Ok(out)
}

fn mig_expected(j: &J) -> Vec<Vec<(i64, i64)>> {
    j.as_array()
        .unwrap()
        .iter()
        .map(|row| {
            row.as_array()
                .unwrap()
                .iter()
                .map(|e| {
                    let rc = e["rc"].as_i64().unwrap();
                    (if rc > 0 { 1 } else { 0 }, rc)
                })
                .collect()
        })
        .collect()
}

/// `pdbh migrate-replay --in F --out F --seed S`
pub fn cmd_migrate_replay(args: &HashMap<String, String>) -> i32 {
    let input = std::fs::read_to_string(&args["in"]).expect("read");
    let seed: u64 = args.get("seed").map(|s| s.parse().unwrap()).unwrap_or(1);
    let root = scratch_root();
    let mut outf = std::io::BufWriter::new(std::fs::File::create(&args["out"]).unwrap());
    let mut nviol = 0;
    for (idx, line) in input.lines().enumerate() {
        if line.trim().is_empty() {
            continue
        }
        let steps: J = serde_json::from_str(line).unwrap();
        let steps = steps.as_array().unwrap();
        let mig = steps.last().unwrap();
        let grow = mig["grow"].as_bool().unwrap();
        // identity hashing (uniform keys, zero salt): all keys of a column share one index chunk,
        // so removals leave holes in front of live entries
        let zero = grow || (seed + idx as u64) % 2 == 0;
        let uniform = zero || (seed + idx as u64) % 2 == 0;
        let nkeys = mig["dst"][0].as_array().unwrap().len() as u64;
        let scols: Vec<ColumnOptions> = mig["sopts"].as_array().unwrap().iter().map(|o| hopt(o, uniform)).collect();
        let dcols: Vec<ColumnOptions> = mig["to"].as_array().unwrap().iter().map(|o| hopt(o, uniform)).collect();
        let sdir = fresh_dir(&root, &format!("m{idx}s"));
        let ddir = fresh_dir(&root, &format!("m{idx}d"));
        let _ = std::fs::remove_dir_all(&ddir);
        let mut viol: Vec<J> = Vec::new();
        let mut mk = |dir: &Path, cols: &[ColumnOptions]| {
            let mut o = admin_options(dir, cols);
            if zero {
                o.salt = Some([0u8; 32]);
            }
            o
        };
        let r: Result<(), String> = (|| {
            {
                let db = Db::open_or_create(&mk(&sdir, &scols)).map_err(|e| format!("create source: {e}"))?;
                if grow {
                    // leave the first column with an index growth pending (two generations on disk)
                    for i in 0..65u32 {
                        let v = if scols[0].preimage || scols[0].ref_counted { ballast_key(i) } else { vec![7u8; 12] };
                        db.commit(vec![(0u8, ballast_key(i), Some(v))]).map_err(|e| format!("{e}"))?;
                        db.process_commits().map_err(|e| format!("{e}"))?;
                    }
                }
                let pending = mig["pending"].as_bool().unwrap_or(false);
                let nops = steps.len() - 1;
                for (j, st) in steps[..nops].iter().enumerate() {
                    if pending && j + 2 == nops {
                        // everything before the last two operations is applied and its log recycled
                        let mut guard = 0;
                        while db.verif_pipeline_sizes().0 > 0 && guard < 64 {
                            db.process_commits().map_err(|e| format!("{e}"))?;
                            guard += 1;
                        }
                        db.flush_logs().map_err(|e| format!("{e}"))?;
                        db.enact_logs().map_err(|e| format!("{e}"))?;
                        db.clean_logs().map_err(|e| format!("{e}"))?;
                    }
                    let c = st["c"].as_u64().unwrap() as usize - 1;
                    let k = st["k"].as_u64().unwrap();
                    let key = mig_key(uniform, c, k);
                    let op = match st["t"].as_str().unwrap() {
                        "set" => parity_db::Operation::Set(key, mig_val(uniform, c, k)),
                        "del" => parity_db::Operation::Dereference(key),
                        _ => parity_db::Operation::Reference(key),
                    };
                    db.commit_changes(vec![(c as u8, op)]).map_err(|e| format!("source commit: {e}"))?;
                }
                if pending {
                    // the source "process" dies with its last operations in a synced, unapplied log: the crash image
                    // (a copy of the directory taken now) becomes the source of the migration
                    let mut guard = 0;
                    while db.verif_pipeline_sizes().0 > 0 && guard < 64 {
                        db.process_commits().map_err(|e| format!("{e}"))?;
                        guard += 1;
                    }
                    db.flush_logs().map_err(|e| format!("{e}"))?;
                    let img = sdir.with_file_name(format!("m{idx}img"));
                    let _ = std::fs::remove_dir_all(&img);
                    copy_dir(&sdir, &img).map_err(|e| format!("image: {e}"))?;
                    drop(db);
                    std::fs::remove_dir_all(&sdir).map_err(|e| format!("{e}"))?;
                    std::fs::rename(&img, &sdir).map_err(|e| format!("{e}"))?;
                }
            }
            let overwrite = mig["overwrite"].as_bool().unwrap();
            let force: Vec<u8> = mig["force"].as_array().unwrap().iter().map(|x| x.as_u64().unwrap() as u8 - 1).collect();
            let mut to = mk(&ddir, &dcols);
            to.with_background_thread = true;
            let res = catch(|| parity_db::migrate(&sdir, to, overwrite, &force)).map_err(|p| format!("panic in migrate: {p}"))?;
            res.map_err(|e| format!("migrate failed: {e}"))?;
            // destination (= the source directory when overwriting in place)
            let (rdir, rcols) = if overwrite { (&sdir, &dcols) } else { (&ddir, &dcols) };
            {
                let db = Db::open(&mk(rdir, rcols)).map_err(|e| format!("open destination: {e}"))?;
                let got = mig_project(&db, rcols, uniform, nkeys)?;
                let want = mig_expected(&mig["dst"]);
                if got != want {
                    return Err(format!("destination content (present, count): model {:?} implementation {:?}", want, got))
                }
                if grow {
                    let mut missing = 0;
                    for i in 0..65u32 {
                        if !matches!(db.get(0, &ballast_key(i)), Ok(Some(_))) {
                            missing += 1;
                        }
                    }
                    if missing > 0 {
                        return Err(format!("{missing} of 65 further source keys (index growth pending in the source) are missing in the destination"))
                    }
                }
            }
            if !overwrite {
                let db = Db::open(&mk(&sdir, &scols)).map_err(|e| format!("reopen source: {e}"))?;
                let got = mig_project(&db, &scols, uniform, nkeys)?;
                let want = mig_expected(&mig["src_after"]);
                if got != want {
                    return Err(format!("source changed by a migration without overwrite: model {:?} implementation {:?}", want, got))
                }
            }
            Ok(())
        })();
        if let Err(e) = r {
            viol.push(json!({"step": steps.len(), "a": "Migrate", "what": e}));
        }
        nviol += viol.len();
        let nontrivial = mig["sopts"] != mig["to"] || !mig["force"].as_array().unwrap().is_empty();
        writeln!(outf, "{}", json!({"i": idx, "nontrivial": nontrivial, "violations": viol})).unwrap();
        let _ = std::fs::remove_dir_all(&sdir);
        let _ = std::fs::remove_dir_all(&ddir);
    }
    let _ = std::fs::remove_dir_all(&root);
    if nviol > 0 {
        1
    } else {
        0
    }
}


// ---------------------------------------------------------------------------
// BTreeNode (C04 / C14): behaviours of spec/BTreeNode.tla replayed with the tree SHAPE compared

fn bt_key(k: u64) -> Vec<u8> {
    // order-preserving: four digits, then a tail whose length varies (up to beyond the one-byte length encoding)
    let mut key = format!("{:04}", k).into_bytes();
    let tail = if k % 31 == 0 { 262 } else { ((k % 7) * 9) as usize };
    key.extend(std::iter::repeat(b'a' + (k % 23) as u8).take(tail));
    key
}

fn bt_rank(key: &[u8]) -> i64 {
    std::str::from_utf8(&key[..key.len().min(4)]).ok().and_then(|s| s.parse::<i64>().ok()).unwrap_or(-1)
}

/// `pdbh btree-replay --in F --out F [--variant rc|lz4]`
pub fn cmd_btree_replay(args: &HashMap<String, String>) -> i32 {
    let input = std::fs::read_to_string(&args["in"]).expect("read");
    let variant = args.get("variant").cloned().unwrap_or_default();
    let root = scratch_root();
    let mut outf = std::io::BufWriter::new(std::fs::File::create(&args["out"]).unwrap());
    let mut nviol = 0;
    for (idx, line) in input.lines().enumerate() {
        if line.trim().is_empty() {
            continue
        }
        let b: J = serde_json::from_str(line).unwrap();
        let steps = b["steps"].as_array().unwrap();
        let dir = fresh_dir(&root, &format!("bt{idx}"));
        let mut col = ColumnOptions { btree_index: true, ..Default::default() };
        if variant == "rc" {
            col.ref_counted = true;
            col.preimage = true;
        }
        if variant == "lz4" {
            col.compression = CompressionType::Lz4;
        }
        let opts = admin_options(&dir, &[col]);
        let mut viol: Vec<J> = Vec::new();
        let compared = std::cell::Cell::new(0usize);
        let r: Result<(), String> = (|| {
            let mut db = Db::open_or_create(&opts).map_err(|e| format!("create: {e}"))?;
            let mut counts: HashMap<u64, u32> = HashMap::new();
            let shape_of = |db: &Db| -> Result<(J, u32), String> {
                let d = db.verif_dump(0).map_err(|e| format!("dump: {e}"))?;
                let (rt, depth) = d.btree.unwrap_or((0, 0));
                if rt == 0 {
                    return Ok((json!({"s": [], "c": []}), depth))
                }
                let mut budget = 100_000usize;
                match crate::dump::shape_node(&d, rt, &bt_rank, &mut budget) {
                    Some(s) => Ok((s, depth)),
                    None => Err("a node of the stored tree cannot be decoded".into()),
                }
            };
            for (i, st) in steps.iter().enumerate() {
                let k = st["k"].as_u64().unwrap();
                if st["a"] == "asc" || st["a"] == "desc" {
                    // canonical load: k keys in ascending (2, 4, ..) or descending (top, top-2, ..) order, one commit each
                    let top = st["top"].as_u64().unwrap_or(0);
                    for j in 1..=k {
                        let kk = if st["a"] == "asc" { 2 * j } else { top - 2 * (j - 1) };
                        let key = bt_key(kk);
                        let v = if variant == "rc" { key.clone() } else { format!("v{kk}").into_bytes() };
                        *counts.entry(kk).or_insert(0u32) += 1;
                        catch(|| db.commit_changes(vec![(0u8, parity_db::Operation::Set(key, v))])).map_err(|p| format!("load: panic in commit: {p}"))?.map_err(|e| format!("load: commit: {e}"))?;
                        catch(|| db.process_commits()).map_err(|p| format!("load: panic in process_commits: {p}"))?.map_err(|e| format!("load: process_commits: {e}"))?;
                        if j % 16 == 0 {
                            db.flush_logs().map_err(|e| format!("{e}"))?;
                            for _ in 0..8 {
                                while enact_one_guarded(&db).map_err(|e| format!("{e}"))? {}
                            }
                            db.clean_logs().map_err(|e| format!("{e}"))?;
                        }
                    }
                    db.flush_logs().map_err(|e| format!("{e}"))?;
                    for _ in 0..8 {
                        while enact_one_guarded(&db).map_err(|e| format!("{e}"))? {}
                    }
                    db.clean_logs().map_err(|e| format!("{e}"))?;
                    let (shape, depth) = catch(|| shape_of(&db)).map_err(|p| format!("load: panic in dump: {p}"))??;
                    compared.set(compared.get() + 1);
                    if shape != st["shape"] || depth as u64 != st["depth"].as_u64().unwrap() {
                        return Err(format!("{} load of {k} keys: tree shape differs from the specification's: depth {} / {}; implementation {} specification {}",
                            st["a"].as_str().unwrap(), depth, st["depth"], shape, st["shape"]))
                    }
                    continue
                }
                let key = bt_key(k);
                let ops = if st["a"] == "batch" {
                    // one commit with several operations (the change set is sorted by the database)
                    let mut v: Vec<(u8, parity_db::Operation<Vec<u8>, Vec<u8>>)> = Vec::new();
                    let mut list: Vec<&J> = st["ops"].as_array().unwrap().iter().collect();
                    // (handed over in an order of the harness's choosing: sorting is the database's business)
                    if i % 2 == 0 {
                        list.reverse();
                    }
                    for o in list {
                        let kk = o["k"].as_u64().unwrap();
                        let key = bt_key(kk);
                        if o["a"] == "ins" {
                            let val = if variant == "rc" { key.clone() } else { format!("v{kk}:{i}").into_bytes() };
                            *counts.entry(kk).or_insert(0u32) += 1;
                            v.push((0u8, parity_db::Operation::Set(key, val)));
                        } else {
                            let n = if variant == "rc" { counts.remove(&kk).unwrap_or(0).max(1) } else { 1 };
                            for _ in 0..n {
                                v.push((0u8, parity_db::Operation::Dereference(key.clone())));
                            }
                        }
                    }
                    v
                } else if st["a"] == "ins" {
                    let mut v = format!("v{k}:{i}").into_bytes();
                    if variant == "rc" {
                        v = key.clone();
                    }
                    *counts.entry(k).or_insert(0u32) += 1;
                    vec![(0u8, parity_db::Operation::Set(key, v))]
                } else {
                    // (counting column: the key goes when its count reaches zero - one dereference per earlier Set)
                    let n = if variant == "rc" { counts.remove(&k).unwrap_or(0).max(1) } else { 1 };
                    (0..n).map(|_| (0u8, parity_db::Operation::Dereference(key.clone()))).collect()
                };
                catch(|| db.commit_changes(ops)).map_err(|p| format!("step {}: panic in commit: {p}", i + 1))?.map_err(|e| format!("step {}: commit: {e}", i + 1))?;
                catch(|| db.process_commits()).map_err(|p| format!("step {}: panic in process_commits: {p}", i + 1))?.map_err(|e| format!("step {}: process_commits: {e}", i + 1))?;
                // the structural dump reads the files: the shape is compared after every `every`-th operation, when
                // the records were applied (in between the tree lives partly in the log overlay and later
                // operations are planned against that)
                let every = 1 + idx % 3;
                if i % every != every - 1 && i + 1 != steps.len() {
                    continue
                }
                db.flush_logs().map_err(|e| format!("{e}"))?;
                for _ in 0..8 {
                    while enact_one_guarded(&db).map_err(|e| format!("{e}"))? {}
                }
                db.clean_logs().map_err(|e| format!("{e}"))?;
                if i % 41 == 40 {
                    drop(db);
                    db = Db::open(&opts).map_err(|e| format!("step {}: reopen: {e}", i + 1))?;
                }
                let (shape, depth) = catch(|| shape_of(&db)).map_err(|p| format!("step {}: panic in dump: {p}", i + 1))??;
                compared.set(compared.get() + 1);
                if shape != st["shape"] || depth as u64 != st["depth"].as_u64().unwrap() {
                    let cut = |j: &J| {
                        let t = j.to_string();
                        if t.len() > 700 { format!("{}...", &t[..700]) } else { t }
                    };
                    return Err(format!("step {} ({} {}): tree shape differs from the specification's [transitions {}]: depth {} / {}; implementation {} specification {}",
                        i + 1, st["a"].as_str().unwrap(), k, st["tags"], depth, st["depth"], cut(&shape), cut(&st["shape"])))
                }
            }
            // the ordered-map meaning at the end: iteration yields exactly the keys of the final shape, in order
            fn flat(n: &J, out: &mut Vec<i64>) {
                let s = n["s"].as_array().unwrap();
                let c = n["c"].as_array().unwrap();
                for i in 0..=s.len() {
                    if let Some(ch) = c.get(i) {
                        flat(ch, out);
                    }
                    if i < s.len() {
                        out.push(s[i].as_i64().unwrap());
                    }
                }
            }
            if let Some(last) = steps.last() {
                let mut want = Vec::new();
                flat(&last["shape"], &mut want);
                let mut it = db.iter(0).map_err(|e| format!("iter: {e}"))?;
                let mut got = Vec::new();
                while let Some((k, _)) = it.next().map_err(|e| format!("next: {e}"))? {
                    got.push(bt_rank(&k));
                }
                if got != want {
                    return Err(format!("iteration at the end yields {got:?}, the tree of the specification holds {want:?}"))
                }
            }
            Ok(())
        })();
        if let Err(e) = r {
            viol.push(json!({"step": 0, "a": "BTree", "what": e}));
        }
        nviol += viol.len();
        writeln!(outf, "{}", json!({"i": idx, "nontrivial": true, "shapes_compared": compared.get(), "violations": viol})).unwrap();
        let _ = std::fs::remove_dir_all(&dir);
    }
    let _ = std::fs::remove_dir_all(&root);
    if nviol > 0 {
        1
    } else {
        0
    }
}

// ---------------------------------------------------------------------------
// PageSearch (C19)

/// Build the real 64-bit index entry for abstract fields (hi = bits the vectorised search
/// compares, lo = partial-key bits it drops) at a given index size.
fn real_entry(index_bits: u8, hi: u64, lo: u64, addr: u64) -> Option<u64> {
    let a = index_bits as u32 + 14; // address bits
    let shift = std::cmp::max(32, a);
    let lo_bits = shift - a;
    if lo >= (1u64 << lo_bits) && lo != 0 {
        return None // the dropped bits do not exist at this index size
    }
    let partial_bits = 64 - a;
    let partial = (hi << lo_bits) | lo;
    if partial_bits < 64 && partial >= (1u64 << partial_bits) {
        return None
    }
    if hi == 0 && lo == 0 && addr == 0 {
        return Some(0)
    }
    Some((partial << a) | (addr & ((1u64 << a) - 1)))
}

fn real_key_prefix(index_bits: u8, hi: u64, lo: u64, noise: u64) -> Option<u64> {
    let a = index_bits as u32 + 14;
    let shift = std::cmp::max(32, a);
    let lo_bits = shift - a;
    if lo >= (1u64 << lo_bits) && lo != 0 {
        return None
    }
    let partial = (hi << lo_bits) | lo;
    // extract_key(prefix, bits) = (prefix << bits) >> address_bits
    let top = (noise & ((1u64 << index_bits) - 1)) << (64 - index_bits as u32); // chunk index bits: arbitrary
    let low = (noise >> 20) & ((1u64 << 14) - 1); // bits below the partial key: arbitrary
    Some(top | (partial << 14) | low)
}

/// `pdbh pagesearch-replay --in F --out F --seed S`
/// every case: {page:[{hi,lo,addr}], key:{hi,lo}, p, fast, base}; embedded at several block
/// offsets of a real 64-slot chunk for several index sizes, both private functions are called
/// through the hook and must return the specification's positions.
pub fn cmd_pagesearch_replay(args: &HashMap<String, String>) -> i32 {
    use rand::{Rng, SeedableRng};
    let input = std::fs::read_to_string(&args["in"]).expect("read");
    let seed: u64 = args.get("seed").map(|s| s.parse().unwrap()).unwrap_or(1);
    let mut rng = rand::rngs::SmallRng::seed_from_u64(seed);
    let mut outf = std::io::BufWriter::new(std::fs::File::create(&args["out"]).unwrap());
    let mut nviol = 0usize;
    let mut ncalls = 0usize;
    for (idx, line) in input.lines().enumerate() {
        if line.trim().is_empty() {
            continue
        }
        let case: J = serde_json::from_str(line).unwrap();
        let page = case["page"].as_array().unwrap();
        let n = page.len();
        let (khi, klo) = (case["key"]["hi"].as_u64().unwrap(), case["key"]["lo"].as_u64().unwrap());
        let p = case["p"].as_u64().unwrap() as usize;
        let want_fast = case["fast"].as_i64().unwrap();
        let want_base = case["base"].as_i64().unwrap();
        let mut viol: Vec<J> = Vec::new();
        'sizes: for bits in [16u8, 17, 18, 20, 32, 40] {
            let kp = match real_key_prefix(bits, khi, klo, rng.gen()) {
                Some(k) => k,
                None => continue,
            };
            let mut entries = Vec::new();
            for e in page {
                match real_entry(bits, e["hi"].as_u64().unwrap(), e["lo"].as_u64().unwrap(), e["addr"].as_u64().unwrap() * (1 + rng.gen::<u64>() % 1000)) {
                    Some(x) => entries.push(x),
                    None => continue 'sizes,
                }
            }
            for off in [0usize, 4, 28, 56] {
                let mut chunk = [0u8; 512];
                for slot in 0..64usize {
                    let v = if slot >= off && slot < off + n {
                        entries[slot - off]
                    } else if slot % 3 == 0 {
                        0 // empty
                    } else {
                        // a used entry that matches no key of the case (compared bits = 3)
                        real_entry(bits, 3, 0, 1 + slot as u64).unwrap()
                    };
                    chunk[slot * 8..slot * 8 + 8].copy_from_slice(&v.to_le_bytes());
                }
                for (fast, want) in [(true, want_fast), (false, want_base)] {
                    ncalls += 1;
                    let (entry, pos) = parity_db::verif::verif_find_entry(bits, &chunk, kp, off + p, fast);
                    let got: i64 = if entry == 0 { -1 } else { pos as i64 - off as i64 };
                    // slots after the embedded window never match, so absent stays absent
                    if got != want {
                        viol.push(json!({"a": if fast { "find_entry" } else { "find_entry_base" }, "what": format!(
                            "index_bits {bits}, window at slot {off}, start {p}: specification says {want}, {} returned {got} (entry {entry:#x})",
                            if fast { "the vectorised search" } else { "the scalar search" })}));
                    }
                }
            }
        }
        nviol += viol.len();
        if !viol.is_empty() || idx % 997 == 0 {
            writeln!(outf, "{}", json!({"i": idx, "nontrivial": want_fast != want_base || p > 0, "violations": viol})).unwrap();
        }
    }
    println!("{}", json!({"calls": ncalls, "violations": nviol}));
    if nviol > 0 {
        1
    } else {
        0
    }
}
