//! Observation of file-operation boundaries without touching parity-db: the harness binary
//! defines fdatasync / fsync / msync / ftruncate64 / unlink itself (std is linked statically,
//! so these definitions win at link time) and forwards with raw syscalls.  Each call is
//! reported to the installed observer after it returned.

use std::cell::Cell;
use std::sync::atomic::{AtomicBool, Ordering};
use std::sync::{Arc, RwLock};

pub type SysObserver = Arc<dyn Fn(&str, &str, i64) + Send + Sync>;

static ON: AtomicBool = AtomicBool::new(false);
static OBS: RwLock<Option<SysObserver>> = RwLock::new(None);
thread_local! {
    static BUSY: std::cell::Cell<bool> = std::cell::Cell::new(false);
}

pub fn set_observer(o: Option<SysObserver>) {
    let mut g = OBS.write().unwrap();
    ON.store(o.is_some(), Ordering::SeqCst);
    *g = o;
}

pub type PreHook = Arc<dyn Fn(&str, &str) + Send + Sync>;
static PRE: RwLock<Option<PreHook>> = RwLock::new(None);
static PRE_ON: AtomicBool = AtomicBool::new(false);

/// A hook that runs before an interposed call is forwarded (may block: forced schedules).
pub fn set_pre_hook(h: Option<PreHook>) {
    let mut g = PRE.write().unwrap();
    PRE_ON.store(h.is_some(), Ordering::SeqCst);
    *g = h;
}

fn pre(call: &str, fd: i32) {
    if PRE_ON.load(Ordering::Relaxed) && !BUSY.with(|b| b.get()) {
        let h = PRE.read().unwrap().clone();
        if let Some(h) = h {
            let prev = BUSY.with(|b| b.replace(true));
            let name = fd_name(fd);
            BUSY.with(|b| b.set(prev));
            h(call, &name);
        }
    }
}

/// errno to inject into the next calls: (call name, remaining successful calls, errno)
static FAIL: RwLock<Option<(String, i64, i32)>> = RwLock::new(None);

pub fn set_failure(call: Option<(&str, i64, i32)>) {
    *FAIL.write().unwrap() = call.map(|(c, n, e)| (c.to_string(), n, e));
}

fn should_fail(call: &str) -> Option<i32> {
    let mut g = FAIL.write().unwrap();
    if let Some((c, n, e)) = g.as_mut() {
        if c == call || c == "*" {
            if *n <= 0 {
                return Some(*e)
            }
            *n -= 1;
        }
    }
    None
}

fn fd_name(fd: i32) -> String {
    match std::fs::read_link(format!("/proc/self/fd/{fd}")) {
        Ok(p) => p.file_name().map(|s| s.to_string_lossy().to_string()).unwrap_or_default(),
        Err(_) => String::new(),
    }
}

thread_local! {
    /// file byte range (offset, length) covered by the msync being reported on this thread
    pub static MSYNC_RANGE: Cell<(u64, u64)> = Cell::new((0, u64::MAX));
}

fn addr_name(addr: usize) -> String {
    if let Ok(maps) = std::fs::read_to_string("/proc/self/maps") {
        for line in maps.lines() {
            let mut it = line.split_whitespace();
            let range = it.next().unwrap_or("");
            let mut r = range.split('-');
            let lo = usize::from_str_radix(r.next().unwrap_or("0"), 16).unwrap_or(0);
            let hi = usize::from_str_radix(r.next().unwrap_or("0"), 16).unwrap_or(0);
            if addr >= lo && addr < hi {
                let path = line.split_whitespace().nth(5).unwrap_or("");
                let map_off = u64::from_str_radix(line.split_whitespace().nth(2).unwrap_or("0"), 16).unwrap_or(0);
                MSYNC_RANGE.with(|m| m.set((map_off + (addr - lo) as u64, m.get().1)));
                return std::path::Path::new(path)
                    .file_name()
                    .map(|s| s.to_string_lossy().to_string())
                    .unwrap_or_default()
            }
        }
    }
    String::new()
}

fn report(call: &str, name: String, ret: i64) {
    if !ON.load(Ordering::Relaxed) {
        return
    }
    let reentrant = BUSY.with(|b| b.replace(true));
    if !reentrant {
        let o = OBS.read().unwrap().clone();
        if let Some(o) = o {
            o(call, &name, ret);
        }
        BUSY.with(|b| b.set(false));
    }
}

/// Run harness-internal file operations (image copies, damage injection) unobserved.
pub fn quiet<R>(f: impl FnOnce() -> R) -> R {
    let prev = BUSY.with(|b| b.replace(true));
    let r = f();
    BUSY.with(|b| b.set(prev));
    r
}

fn watching() -> bool {
    ON.load(Ordering::Relaxed) && !BUSY.with(|b| b.get())
}

unsafe fn set_errno(e: i32) {
    *libc::__errno_location() = e;
}

#[no_mangle]
pub unsafe extern "C" fn fdatasync(fd: i32) -> i32 {
    pre("fdatasync", fd);
    if watching() {
        if let Some(e) = should_fail("fdatasync") {
            set_errno(e);
            return -1
        }
    }
    let r = libc::syscall(libc::SYS_fdatasync, fd) as i32;
    if watching() {
        report("fdatasync", fd_name(fd), r as i64);
    }
    r
}

#[no_mangle]
pub unsafe extern "C" fn fsync(fd: i32) -> i32 {
    if watching() {
        if let Some(e) = should_fail("fsync") {
            set_errno(e);
            return -1
        }
    }
    let r = libc::syscall(libc::SYS_fsync, fd) as i32;
    if watching() {
        report("fsync", fd_name(fd), r as i64);
    }
    r
}

#[no_mangle]
pub unsafe extern "C" fn msync(addr: *mut libc::c_void, len: usize, flags: i32) -> i32 {
    if watching() {
        if let Some(e) = should_fail("msync") {
            set_errno(e);
            return -1
        }
    }
    let r = libc::syscall(libc::SYS_msync, addr, len, flags) as i32;
    if watching() {
        MSYNC_RANGE.with(|m| m.set((0, len as u64)));
        report("msync", addr_name(addr as usize), r as i64);
    }
    r
}

#[no_mangle]
pub unsafe extern "C" fn ftruncate64(fd: i32, len: i64) -> i32 {
    if watching() {
        if let Some(e) = should_fail("ftruncate") {
            set_errno(e);
            return -1
        }
    }
    let r = libc::syscall(libc::SYS_ftruncate, fd, len) as i32;
    if watching() {
        report(if len == 0 { "ftruncate0" } else { "ftruncate" }, fd_name(fd), len);
    }
    r
}

#[no_mangle]
pub unsafe extern "C" fn unlink(path: *const libc::c_char) -> i32 {
    let name = if watching() {
        std::path::Path::new(&std::ffi::CStr::from_ptr(path).to_string_lossy().to_string())
            .file_name()
            .map(|s| s.to_string_lossy().to_string())
            .unwrap_or_default()
    } else {
        String::new()
    };
    if watching() {
        if let Some(e) = should_fail("unlink") {
            set_errno(e);
            return -1
        }
    }
    let r = libc::syscall(libc::SYS_unlink, path) as i32;
    if watching() {
        report("unlink", name, r as i64);
    }
    r
}
