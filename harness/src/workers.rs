//! C15: forced schedules for the wake-up races TLC finds in spec/Workers.tla, and
//! watchdog-bounded liveness scenarios with the real worker threads.
//!
//! The hook sink runs on the thread that emits the event, inside the critical section, so it
//! can hold a thread at exactly the point the model's counterexample needs ("between the
//! check and the park") until another thread has taken its step.

use crate::common::*;
use parity_db::{ColumnOptions, Db, Options};
use serde_json::json;
use std::collections::HashMap;
use std::sync::atomic::{AtomicBool, AtomicUsize, Ordering};
use std::sync::{Arc, Condvar, Mutex};
use std::time::{Duration, Instant};

#[derive(Default)]
pub struct Gate {
    open: Mutex<bool>,
    cv: Condvar,
    reached: AtomicBool,
}

impl Gate {
    pub fn new() -> Arc<Gate> {
        Arc::new(Gate::default())
    }
    /// called by the gated thread: note arrival, wait until opened (bounded, so that the
    /// scenario itself can never hang the harness)
    pub fn pass(&self) {
        self.reached.store(true, Ordering::SeqCst);
        let mut g = self.open.lock().unwrap();
        let start = Instant::now();
        let mut n = 0;
        while !*g && start.elapsed() < Duration::from_secs(120) {
            let (ng, _) = self.cv.wait_timeout(g, Duration::from_millis(50)).unwrap();
            g = ng;
            n += 1;
        }
        if std::env::var("PDBH_DEBUG").is_ok() {
            eprintln!("pass done: open={} iterations={} elapsed={:?}", *g, n, start.elapsed());
        }
    }
    /// open after a short delay, from another thread: the event that triggers the release is
    /// emitted just BEFORE the racing step (the notify), which gets a head start
    pub fn open_later(self: &Arc<Self>, ms: u64) {
        let g = self.clone();
        std::thread::spawn(move || {
            std::thread::sleep(Duration::from_millis(ms));
            g.open();
        });
    }
    pub fn open(&self) {
        if std::env::var("PDBH_DEBUG").is_ok() {
            eprintln!("gate opened by tid {}", tid());
        }
        *self.open.lock().unwrap() = true;
        self.cv.notify_all();
    }
    pub fn wait_reached(&self, secs: u64) -> bool {
        let start = Instant::now();
        while !self.reached.load(Ordering::SeqCst) {
            if start.elapsed() > Duration::from_secs(secs) {
                return false
            }
            std::thread::sleep(Duration::from_millis(2));
        }
        true
    }
}

fn opts(dir: &std::path::Path, always_flush: bool) -> Options {
    let mut o = Options::with_columns(dir, 1);
    o.columns[0] = ColumnOptions::default();
    o.with_background_thread = true;
    o.always_flush = always_flush;
    o.stats = false;
    o
}

fn big(n: usize, tag: u8) -> Vec<u8> {
    // incompressible-ish, cheap to build
    let mut v = vec![tag; n];
    for (i, b) in v.iter_mut().enumerate().step_by(97) {
        *b = (i as u8) ^ tag;
    }
    v
}

/// Run `f` on a thread; true if it finished within `secs`.
fn finishes_within<F: FnOnce() + Send + 'static>(f: F, secs: u64) -> bool {
    let done = Arc::new(AtomicBool::new(false));
    let d2 = done.clone();
    std::thread::spawn(move || {
        f();
        d2.store(true, Ordering::SeqCst);
    });
    let start = Instant::now();
    while !done.load(Ordering::SeqCst) {
        if start.elapsed() > Duration::from_secs(secs) {
            return false
        }
        std::thread::sleep(Duration::from_millis(5));
    }
    true
}

/// `pdbh workers-scenario --which S1|S2|S7 [--watchdog SECS]`
/// Prints {"which":..,"reached":bool,"hung":bool}. The process exits afterwards even if
/// database threads are stuck.
pub fn cmd_scenario(args: &HashMap<String, String>) -> i32 {
    let which = args["which"].clone();
    let watchdog: u64 = args.get("watchdog").map(|s| s.parse().unwrap()).unwrap_or(20);
    let root = scratch_root();
    let dir = fresh_dir(&root, "wk");
    let rec = Recorder::install();
    rec.set_enabled(false);
    let result = match which.as_str() {
        "S1" => s1(&dir, &rec, watchdog),
        "S2" => s2(&dir, &rec, watchdog),
        "S7" => s7(&dir, &rec, watchdog),
        "FULLQ" => fullq(&dir, &rec, watchdog),
        _ => json!({"error": "unknown scenario"}),
    };
    println!("{}", result);
    let _ = std::io::Write::flush(&mut std::io::stdout());
    let _ = std::fs::remove_dir_all(&root);
    // stuck threads must not keep the process alive
    std::process::exit(0);
}

/// S1: a committer has evaluated `queue.bytes > MAX_COMMIT_QUEUE_BYTES`; before it parks, the
/// log worker fails and store_err() notifies without the queue mutex; the committer then
/// sleeps forever although all workers are gone.
fn s1(dir: &std::path::Path, rec: &Arc<Recorder>, watchdog: u64) -> serde_json::Value {
    let db = Arc::new(Db::open_or_create(&opts(dir, true)).unwrap());
    let gate_lw = Gate::new(); // log worker, at BeginRecord of the first big commit
    let gate_client = Gate::new(); // committer, between the check and the wait
    let notified = Arc::new(AtomicBool::new(false));
    let lw_tid = Arc::new(AtomicUsize::new(0));
    {
        let (gl, gc, nt, lt) = (gate_lw.clone(), gate_client.clone(), notified.clone(), lw_tid.clone());
        rec.set_callback(Some(Arc::new(move |name: &str, _a: &[u64], _p: usize| match name {
            "BeginRecord" if !gl.reached.load(Ordering::SeqCst) => {
                lt.store(tid() as usize, Ordering::SeqCst);
                gl.pass();
                // the log worker's next file operation fails (per-thread instrumentation counter)
                parity_db::set_number_of_allowed_io_operations(0);
            },
            "CommitFullPark" => gc.pass(),
            "StoreErr" => {
                nt.store(true, Ordering::SeqCst);
                gc.open_later(200);
            },
            _ => {},
        })));
    }
    let mb17 = 17 * 1024 * 1024;
    db.commit(vec![(0u8, b"A".to_vec(), Some(big(mb17, 1)))]).unwrap();
    let reached_lw = gate_lw.wait_reached(30);
    // the queue is empty again (A was popped); B1 makes it exceed the limit, B2 has to wait
    db.commit(vec![(0u8, b"B1".to_vec(), Some(big(mb17, 2)))]).unwrap();
    let db2 = db.clone();
    let returned = Arc::new(AtomicBool::new(false));
    let r2 = returned.clone();
    std::thread::spawn(move || {
        let _ = db2.commit(vec![(0u8, b"B2".to_vec(), Some(vec![3u8; 10]))]);
        r2.store(true, Ordering::SeqCst);
    });
    let reached_client = gate_client.wait_reached(30);
    // let the log worker fail now: store_err -> notify_all (nobody parked yet) -> committer released
    gate_lw.open();
    let start = Instant::now();
    while !returned.load(Ordering::SeqCst) && start.elapsed() < Duration::from_secs(watchdog) {
        std::thread::sleep(Duration::from_millis(10));
    }
    let hung = !returned.load(Ordering::SeqCst);
    json!({"which": "S1", "reached": reached_lw && reached_client && notified.load(Ordering::SeqCst), "hung": hung,
           "what": "commit call issued while the queue was over its limit never returned after the log worker failed"})
}

/// Several commit calls parked on the full commit queue: when the queue drains below its limit
/// every one of them must return (the log worker wakes all waiters at the crossing).
fn fullq(dir: &std::path::Path, rec: &Arc<Recorder>, watchdog: u64) -> serde_json::Value {
    let db = Arc::new(Db::open_or_create(&opts(dir, true)).unwrap());
    let gate_lw = Gate::new(); // log worker, holding no lock, at BeginRecord of the first big commit
    let parked = Arc::new(AtomicUsize::new(0));
    {
        let (gl, pk) = (gate_lw.clone(), parked.clone());
        rec.set_callback(Some(Arc::new(move |name: &str, _a: &[u64], _p: usize| match name {
            "BeginRecord" if !gl.reached.load(Ordering::SeqCst) => gl.pass(),
            "CommitFullPark" => {
                pk.fetch_add(1, Ordering::SeqCst);
            },
            _ => {},
        })));
    }
    let mb17 = 17 * 1024 * 1024;
    db.commit(vec![(0u8, b"A".to_vec(), Some(big(mb17, 1)))]).unwrap();
    let reached = gate_lw.wait_reached(30);
    db.commit(vec![(0u8, b"B1".to_vec(), Some(big(mb17, 2)))]).unwrap();
    let returned = Arc::new(AtomicUsize::new(0));
    let nclients = 3usize;
    for c in 0..nclients {
        let (db2, r2) = (db.clone(), returned.clone());
        std::thread::spawn(move || {
            let _ = db2.commit(vec![(0u8, vec![b'c', c as u8], Some(vec![3u8; 10]))]);
            r2.fetch_add(1, Ordering::SeqCst);
        });
    }
    let start = Instant::now();
    while parked.load(Ordering::SeqCst) < nclients && start.elapsed() < Duration::from_secs(20) {
        std::thread::sleep(Duration::from_millis(5));
    }
    let all_parked = parked.load(Ordering::SeqCst) >= nclients;
    std::thread::sleep(Duration::from_millis(100)); // let them actually wait
    gate_lw.open();
    let start = Instant::now();
    while returned.load(Ordering::SeqCst) < nclients && start.elapsed() < Duration::from_secs(watchdog) {
        std::thread::sleep(Duration::from_millis(10));
    }
    let n = returned.load(Ordering::SeqCst);
    json!({"which": "FULLQ", "reached": reached && all_parked, "hung": n < nclients,
           "what": format!("{} of {} commit calls that waited on the full queue returned after it drained", n, nclients)})
}

/// S2: the log worker has evaluated `!shutdown && log_queue > MAX_LOG_QUEUE_BYTES`; before it
/// parks, drop() runs shutdown(), whose notify_one is lost; the flush worker exits without
/// flushing the appending file, so the commit worker has nothing to apply and nobody will ever
/// notify again: drop() blocks joining the log thread.  (More than 128 MiB must be logged and
/// not yet flushed: two 70 MiB transactions while the flush worker is between two checks.)
fn s2(dir: &std::path::Path, rec: &Arc<Recorder>, watchdog: u64) -> serde_json::Value {
    let db = Db::open_or_create(&opts(dir, false)).unwrap();
    let gate_park = Gate::new(); // log worker between check and wait
    let gate_flush = Gate::new(); // flush worker at the end of an idle loop iteration
    let armed = Arc::new(AtomicBool::new(false));
    {
        let (gp, gf, ar) = (gate_park.clone(), gate_flush.clone(), armed.clone());
        rec.set_callback(Some(Arc::new(move |name: &str, a: &[u64], _p: usize| match name {
            "LogThrottlePark" => gp.pass(),
            "WorkerLoopEnd" if a[0] == 2 && ar.load(Ordering::SeqCst) && !gf.reached.load(Ordering::SeqCst) => gf.pass(),
            "Shutdown" => {
                gp.open_later(200);
                gf.open_later(200);
            },
            _ => {},
        })));
    }
    armed.store(true, Ordering::SeqCst);
    db.commit(vec![(0u8, b"warm".to_vec(), Some(vec![0u8; 16]))]).unwrap();
    let reached_flush = gate_flush.wait_reached(20);
    let mb = 1024 * 1024;
    // each call returns once the previous transaction left the commit queue
    db.commit(vec![(0u8, b"big1".to_vec(), Some(big(70 * mb, 1)))]).unwrap();
    db.commit(vec![(0u8, b"big2".to_vec(), Some(big(70 * mb, 2)))]).unwrap();
    // the next pass of the log worker evaluates the throttle with > 128 MiB logged
    let mut reached_park = false;
    for i in 0..6u8 {
        if gate_park.wait_reached(3) {
            reached_park = true;
            break
        }
        // (a small commit wakes the log worker if it went to sleep meanwhile)
        let db_ref = &db;
        let _ = finishes_small_commit(db_ref, i);
    }
    let finished = finishes_within(move || drop(db), watchdog);
    json!({"which": "S2", "reached": reached_flush && reached_park, "hung": !finished,
           "what": "drop() did not return: log worker parked on the log-queue throttle after shutdown's lost notify"})
}

fn finishes_small_commit(db: &Db, i: u8) -> bool {
    db.commit(vec![(0u8, vec![b'r', i], Some(vec![1u8; 8]))]).is_ok()
}

/// S7: the cleanup worker is about to re-evaluate its loop condition with more_work = false;
/// the commit worker meanwhile accumulates more than MAX_LOG_FILES dirty logs and waits for
/// a cleanup; shutdown makes the cleanup worker exit without cleaning; drop() blocks joining
/// the commit thread.
fn s7(dir: &std::path::Path, rec: &Arc<Recorder>, watchdog: u64) -> serde_json::Value {
    let db = Db::open_or_create(&opts(dir, true)).unwrap();
    let gate_clean = Gate::new(); // cleanup worker at the end of an idle loop iteration
    let waiting = Arc::new(AtomicBool::new(false));
    let armed = Arc::new(AtomicBool::new(false));
    {
        let (gc, w, ar) = (gate_clean.clone(), waiting.clone(), armed.clone());
        rec.set_callback(Some(Arc::new(move |name: &str, a: &[u64], _p: usize| match name {
            "WorkerLoopEnd" if a[0] == 4 && a[1] == 0 && ar.load(Ordering::SeqCst) && !gc.reached.load(Ordering::SeqCst) => gc.pass(),
            "EnactCleanupWait" => w.store(true, Ordering::SeqCst),
            "Shutdown" => gc.open_later(200),
            _ => {},
        })));
    }
    // let the pipeline settle once, then hold the cleanup worker at its next idle loop end
    db.commit(vec![(0u8, b"warm".to_vec(), Some(vec![0u8; 16]))]).unwrap();
    std::thread::sleep(Duration::from_millis(200));
    armed.store(true, Ordering::SeqCst);
    db.commit(vec![(0u8, b"arm".to_vec(), Some(vec![0u8; 16]))]).unwrap();
    let reached_clean = gate_clean.wait_reached(20);
    // every commit becomes its own log file (always_flush); after more than MAX_LOG_FILES files
    // reached end-of-file the commit worker waits for a cleanup that cannot happen
    let mut reached_wait = false;
    for i in 0..40u32 {
        db.commit(vec![(0u8, format!("k{i}").into_bytes(), Some(vec![i as u8; 32]))]).unwrap();
        std::thread::sleep(Duration::from_millis(30));
        if waiting.load(Ordering::SeqCst) {
            reached_wait = true;
            break
        }
    }
    let finished = finishes_within(move || drop(db), watchdog);
    json!({"which": "S7", "reached": reached_clean && reached_wait, "hung": !finished,
           "what": "drop() did not return: commit worker waits for a log cleanup after the cleanup worker exited"})
}

/// Watchdog-bounded liveness scenarios without forced schedules: commit storms, large
/// transactions, drop immediately after commit.  `pdbh workers-live --seed S --rounds N`
pub fn cmd_live(args: &HashMap<String, String>) -> i32 {
    let rounds: usize = args.get("rounds").map(|s| s.parse().unwrap()).unwrap_or(4);
    let seed: u64 = args.get("seed").map(|s| s.parse().unwrap()).unwrap_or(1);
    let watchdog: u64 = args.get("watchdog").map(|s| s.parse().unwrap()).unwrap_or(60);
    let root = scratch_root();
    let mut problems = Vec::new();
    let mut total_commits = 0usize;
    for r in 0..rounds {
        let dir = fresh_dir(&root, &format!("live{r}"));
        let always = (seed as usize + r) % 2 == 0;
        let db = Arc::new(Db::open_or_create(&opts(&dir, always)).unwrap());
        // records written to the log / applied to the tables (hook events)
        let logged: Arc<Mutex<std::collections::BTreeSet<u64>>> = Arc::new(Mutex::new(Default::default()));
        let enacted: Arc<Mutex<std::collections::BTreeSet<u64>>> = Arc::new(Mutex::new(Default::default()));
        {
            let (l2, e2) = (logged.clone(), enacted.clone());
            parity_db::verif::set_sink(Some(Arc::new(move |n: &'static str, a: &[u64]| match n {
                "EndRecord" => {
                    l2.lock().unwrap().insert(a[0]);
                },
                "EnactEnd" => {
                    e2.lock().unwrap().insert(a[0]);
                },
                _ => {},
            })));
        }
        let nthreads = 1 + (seed as usize + r) % 3;
        let per = 300 + 200 * (r % 3);
        let bigtx = r % 2 == 1;
        let counter = Arc::new(AtomicUsize::new(0));
        let mut hs = Vec::new();
        for t in 0..nthreads {
            let (db, counter) = (db.clone(), counter.clone());
            hs.push(std::thread::spawn(move || {
                for i in 0..per {
                    let n = if bigtx && i % 97 == 0 { 5 * 1024 * 1024 } else { 20 + (i % 300) };
                    let key = format!("t{t}k{}", i % 50).into_bytes();
                    if db.commit(vec![(0u8, key, Some(big(n, (i % 251) as u8)))]).is_ok() {
                        counter.fetch_add(1, Ordering::SeqCst);
                    }
                }
            }));
        }
        let all = finishes_within(
            move || {
                for h in hs {
                    let _ = h.join();
                }
            },
            watchdog,
        );
        if !all {
            problems.push(format!("round {r}: commit calls did not return within {watchdog}s"));
            break
        }
        total_commits += counter.load(Ordering::SeqCst);
        // no further client activity: with a rotation after every record (always_flush) every logged record
        // must reach the tables on its own
        if always {
            let start = Instant::now();
            loop {
                let missing: Vec<u64> = {
                    let (l, e) = (logged.lock().unwrap(), enacted.lock().unwrap());
                    l.iter().filter(|x| !e.contains(x)).copied().collect()
                };
                let queued = db.verif_pipeline_sizes().0;
                if missing.is_empty() && queued == 0 {
                    break
                }
                if start.elapsed() > Duration::from_secs(watchdog.min(20)) {
                    problems.push(format!("round {r}: {} logged records (first {:?}) were not applied to the tables within {} s without further client activity ({} commits still queued)",
                                          missing.len(), missing.first(), watchdog.min(20), queued));
                    break
                }
                std::thread::sleep(Duration::from_millis(10));
            }
        }
        parity_db::verif::set_sink(None);
        // drop immediately after the last commit
        let db = match Arc::try_unwrap(db) {
            Ok(d) => d,
            Err(_) => {
                problems.push("harness: db shared".into());
                break
            },
        };
        if !finishes_within(move || drop(db), watchdog) {
            problems.push(format!("round {r}: drop() did not return within {watchdog}s"));
            break
        }
        // everything persisted
        match Db::open(&opts(&dir, always)) {
            Ok(d) => {
                for t in 0..nthreads {
                    for k in 0..50 {
                        if per > k && !matches!(d.get(0, format!("t{t}k{k}").as_bytes()), Ok(Some(_))) {
                            problems.push(format!("round {r}: key t{t}k{k} missing after drop + reopen"));
                        }
                    }
                }
                drop(d);
            },
            Err(e) => problems.push(format!("round {r}: reopen failed: {e}")),
        }
        let _ = std::fs::remove_dir_all(&dir);
    }
    println!("{}", json!({"rounds": rounds, "commits": total_commits, "problems": problems}));
    let _ = std::io::Write::flush(&mut std::io::stdout());
    let _ = std::fs::remove_dir_all(&root);
    std::process::exit(if problems.is_empty() { 0 } else { 1 });
}
