//! Ad-hoc probes of suspected defects (development aid; not part of any check).
use parity_db::{ColumnOptions, Db, Options};
use std::collections::HashMap;

fn key(prefix17: u32, n: u32) -> Vec<u8> {
    // 32-byte uniform key: first 17 bits = prefix17, then distinct bits
    let mut k = vec![0u8; 32];
    let v: u64 = ((prefix17 as u64) << 47) | ((n as u64) << 20);
    k[0..8].copy_from_slice(&v.to_be_bytes());
    k[8] = n as u8;
    k[9] = (n >> 8) as u8;
    k
}

pub fn cmd_probe(args: &HashMap<String, String>) -> i32 {
    let dir = std::path::PathBuf::from(args.get("dir").cloned().unwrap_or("/dev/shm/probe_f15".into()));
    let _ = std::fs::remove_dir_all(&dir);
    let mut o = Options::with_columns(&dir, 1);
    o.columns[0] = ColumnOptions { uniform: true, ..Default::default() };
    o.salt = Some([0u8; 32]);
    o.with_background_thread = false;
    o.always_flush = true;
    let db = Db::open_or_create(&o).unwrap();
    let step = |db: &Db| {
        db.process_commits().unwrap();
        db.flush_logs().unwrap();
        db.enact_logs().unwrap();
        db.clean_logs().unwrap();
    };
    let p = 0x1ABCD; // 17-bit prefix
    // 65 keys in one 16-bit chunk, all with the same 17th bit
    for n in 0..65u32 {
        db.commit(vec![(0u8, key(p, n), Some(vec![1u8; 10]))]).unwrap();
        step(&db);
    }
    println!("index files: {:?}", std::fs::read_dir(&dir).unwrap().map(|e| e.unwrap().file_name().to_string_lossy().to_string()).filter(|n| n.starts_with("index")).collect::<Vec<_>>());
    // 63 more new keys with the same 17-bit prefix -> page of index_17 full (64 entries)
    for n in 100..163u32 {
        db.commit(vec![(0u8, key(p, n), Some(vec![2u8; 10]))]).unwrap();
        step(&db);
    }
    println!("index files: {:?}", std::fs::read_dir(&dir).unwrap().map(|e| e.unwrap().file_name().to_string_lossy().to_string()).filter(|n| n.starts_with("index")).collect::<Vec<_>>());
    // a key still in index_16: set it to a value of another size tier
    let k = key(p, 3);
    println!("before: {:?}", db.get(0, &k).unwrap().map(|v| v.len()));
    db.commit(vec![(0u8, k.clone(), Some(vec![3u8; 500]))]).unwrap();
    println!("queued: {:?}", db.get(0, &k).unwrap().map(|v| v.len()));
    step(&db);
    println!("after drain: {:?}", db.get(0, &k).unwrap().map(|v| v.len()));
    let mut missing = 0;
    for n in (0..65u32).chain(100..163u32) {
        if db.get(0, &key(p, n)).unwrap().is_none() {
            missing += 1;
        }
    }
    println!("missing keys: {missing}");
    0
}
