//! Ad-hoc probes of suspected defects (development aid; not part of any check).
use parity_db::{ColumnOptions, Db, Options};
use std::collections::HashMap;

fn key(prefix17: u32, n: u32) -> Vec<u8> {
    // 32-byte uniform key: first 17 bits = prefix17, then distinct bits
    let mut k = vec![0u8; 32];
    let v: u64 = ((prefix17 as u64) << 47) | ((n as u64) << 20);
    k[0..8].copy_from_slice(&v.to_be_bytes());
    k[8] = n as u8;
    k[9] = (n >> 8) as u8;
    k
}

pub fn cmd_probe(args: &HashMap<String, String>) -> i32 {
    let dir = std::path::PathBuf::from(args.get("dir").cloned().unwrap_or("/dev/shm/probe_f15".into()));
    let _ = std::fs::remove_dir_all(&dir);
    let mut o = Options::with_columns(&dir, 1);
    o.columns[0] = ColumnOptions { uniform: true, ..Default::default() };
    o.salt = Some([0u8; 32]);
    o.with_background_thread = false;
    o.always_flush = true;
    let db = Db::open_or_create(&o).unwrap();
    let step = |db: &Db| {
        db.process_commits().unwrap();
        db.flush_logs().unwrap();
        db.enact_logs().unwrap();
        db.clean_logs().unwrap();
    };
    let p = 0x1ABCD; // 17-bit prefix
    // 65 keys in one 16-bit chunk, all with the same 17th bit
    for n in 0..65u32 {
        db.commit(vec![(0u8, key(p, n), Some(vec![1u8; 10]))]).unwrap();
        step(&db);
    }
    println!("index files: {:?}", std::fs::read_dir(&dir).unwrap().map(|e| e.unwrap().file_name().to_string_lossy().to_string()).filter(|n| n.starts_with("index")).collect::<Vec<_>>());
    // 63 more new keys with the same 17-bit prefix -> page of index_17 full (64 entries)
    for n in 100..163u32 {
        db.commit(vec![(0u8, key(p, n), Some(vec![2u8; 10]))]).unwrap();
        step(&db);
    }
    println!("index files: {:?}", std::fs::read_dir(&dir).unwrap().map(|e| e.unwrap().file_name().to_string_lossy().to_string()).filter(|n| n.starts_with("index")).collect::<Vec<_>>());
    // a key still in index_16: set it to a value of another size tier
    let k = key(p, 3);
    println!("before: {:?}", db.get(0, &k).unwrap().map(|v| v.len()));
    db.commit(vec![(0u8, k.clone(), Some(vec![3u8; 500]))]).unwrap();
    println!("queued: {:?}", db.get(0, &k).unwrap().map(|v| v.len()));
    step(&db);
    println!("after drain: {:?}", db.get(0, &k).unwrap().map(|v| v.len()));
    let mut missing = 0;
    for n in (0..65u32).chain(100..163u32) {
        if db.get(0, &key(p, n)).unwrap().is_none() {
            missing += 1;
        }
    }
    println!("missing keys: {missing}");
    0
}

/// F9: value table file that exists but is empty (crash between creating the file and writing to it)
pub fn cmd_probe_f9(args: &HashMap<String, String>) -> i32 {
    let btree = args.get("btree").is_some();
    let dir = std::path::PathBuf::from("/dev/shm/probe_f9");
    let _ = std::fs::remove_dir_all(&dir);
    let mut o = Options::with_columns(&dir, 1);
    o.columns[0] = ColumnOptions { btree_index: btree, ..Default::default() };
    o.with_background_thread = false;
    o.always_flush = true;
    let db = Db::open_or_create(&o).unwrap();
    drop(db);
    for t in 0..16 {
        std::fs::File::create(dir.join(format!("table_00_{:02}", t))).unwrap();
    }
    let db = match Db::open(&o) {
        Ok(d) => d,
        Err(e) => {
            println!("open: {e}");
            return 0
        },
    };
    println!("open ok");
    println!("get: {:?}", db.get(0, b"k1").map(|v| v.map(|x| x.len())));
    println!("commit: {:?}", db.commit(vec![(0u8, b"k1".to_vec(), Some(vec![1u8; 10]))]));
    println!("process: {:?}", db.process_commits());
    println!("flush: {:?}", db.flush_logs());
    println!("enact: {:?}", db.enact_logs());
    println!("get: {:?}", db.get(0, b"k1").map(|v| v.map(|x| x.len())));
    drop(db);
    let db = Db::open(&o);
    println!("reopen: {:?}", db.as_ref().map(|_| ()).map_err(|e| e.to_string()));
    if let Ok(db) = db {
        println!("get after reopen: {:?}", db.get(0, b"k1").map(|v| v.map(|x| x.len())));
    }
    0
}

/// F4: crash right after the old index file was unlinked during an enact, with an earlier, already
/// enacted record in the same log that names the old index
pub fn cmd_probe_f4(args: &HashMap<String, String>) -> i32 {
    use crate::common::copy_dir;
    let with_r1 = args.get("control").is_none();
    let dir = std::path::PathBuf::from("/dev/shm/probe_f4");
    let img = std::path::PathBuf::from("/dev/shm/probe_f4_img");
    let _ = std::fs::remove_dir_all(&dir);
    let _ = std::fs::remove_dir_all(&img);
    let mut o = Options::with_columns(&dir, 1);
    o.columns[0] = ColumnOptions { uniform: true, ..Default::default() };
    o.salt = Some([0u8; 32]);
    o.with_background_thread = false;
    o.always_flush = true;
    let db = Db::open_or_create(&o).unwrap();
    let k = |i: u32| { let mut k = vec![0u8; 32]; k[0] = 0xfe; k[1] = 0xdc; k[2] = (i as u8) << 1; k[20] = 0x77; k[21] = i as u8; k };
    db.commit((0..65u32).map(|i| (0u8, k(i), Some(vec![7u8; 11]))).collect::<Vec<_>>()).unwrap();
    db.process_commits().unwrap(); db.flush_logs().unwrap(); db.enact_logs().unwrap(); db.clean_logs().unwrap();
    let files = |d: &std::path::Path| { let mut v: Vec<String> = std::fs::read_dir(d).unwrap().map(|e| e.unwrap().file_name().to_string_lossy().to_string()).filter(|n| n.starts_with("index") || n.starts_with("log")).collect(); v.sort(); v };
    println!("after growth: {:?}", files(&dir));
    if with_r1 {
        db.commit(vec![(0u8, k(3), None)]).unwrap();
        db.process_commits().unwrap();
    }
    for _ in 0..12 { db.process_reindex().unwrap(); }
    db.commit(vec![(0u8, k(70), Some(vec![9u8; 11]))]).unwrap();
    db.process_commits().unwrap();
    db.flush_logs().unwrap();
    let (d2, i2) = (dir.clone(), img.clone());
    let taken = std::sync::Arc::new(std::sync::atomic::AtomicBool::new(false));
    let t2 = taken.clone();
    crate::sys::set_observer(Some(std::sync::Arc::new(move |call: &str, name: &str, _ret: i64| {
        if call == "unlink" && name.starts_with("index_00_16") && !t2.swap(true, std::sync::atomic::Ordering::SeqCst) {
            crate::sys::quiet(|| { let _ = copy_dir(&d2, &i2); });
        }
    })));
    db.enact_logs().unwrap();
    db.enact_logs().unwrap();
    crate::sys::set_observer(None);
    println!("image taken: {} files in image: {:?}", taken.load(std::sync::atomic::Ordering::SeqCst), if img.exists() { files(&img) } else { vec![] });
    println!("live db: k70 = {:?}", db.get(0, &k(70)).unwrap().map(|v| v.len()));
    std::mem::forget(db);
    if img.exists() {
        let _ = std::fs::remove_file(img.join("lock"));
        let mut o2 = o.clone();
        o2.path = img.clone();
        match Db::open(&o2) {
            Ok(d) => println!("image: k70 = {:?} k3 = {:?} k5 = {:?}", d.get(0, &k(70)).unwrap().map(|v| v.len()), d.get(0, &k(3)).unwrap().map(|v| v.len()), d.get(0, &k(5)).unwrap().map(|v| v.len())),
            Err(e) => println!("image open: {e}"),
        }
    }
    0
}

/// F21: process crash with a log record written but not yet synced; recovery enacts it; power loss
/// during that recovery (the unsynced log bytes are gone, some of the table pages recovery dirtied reached
/// the disk): the second recovery finds a torn transaction.
pub fn cmd_probe_f21(_args: &HashMap<String, String>) -> i32 {
    use crate::common::{copy_dir, DurableState};
    let root = crate::common::scratch_root();
    let dir = root.join("f21");
    let img1 = root.join("f21_img1");
    let img2 = root.join("f21_img2");
    let shadow = root.join("f21_shadow");
    for d in [&dir, &img1, &img2, &shadow] {
        let _ = std::fs::remove_dir_all(d);
    }
    let mut o = Options::with_columns(&dir, 1);
    o.columns[0] = ColumnOptions::default();
    o.with_background_thread = false;
    o.always_flush = true;
    let db = Db::open_or_create(&o).unwrap();
    let drain = |db: &Db| {
        db.process_commits().unwrap();
        db.flush_logs().unwrap();
        db.enact_logs().unwrap();
        db.clean_logs().unwrap();
    };
    // transaction A: creates the two value tables and the index
    db.commit(vec![(0u8, b"a-small".to_vec(), Some(vec![1u8; 10])), (0u8, b"a-large".to_vec(), Some(vec![1u8; 300]))]).unwrap();
    drain(&db);
    // transaction B: two values in different size tiers; its record reaches the log FILE but is not synced
    db.commit(vec![(0u8, b"b-small".to_vec(), Some(vec![2u8; 10])), (0u8, b"b-large".to_vec(), Some(vec![2u8; 300]))]).unwrap();
    db.process_commits().unwrap();
    crate::sys::set_observer(Some(std::sync::Arc::new(|_c: &str, _n: &str, _r: i64| {})));
    crate::sys::set_failure(Some(("fdatasync", 0, 5)));
    let r = db.flush_logs();
    crate::sys::set_failure(None);
    crate::sys::set_observer(None);
    println!("flush_logs with a failing fdatasync: {:?}", r.map_err(|e| e.to_string()));
    // process crash
    copy_dir(&dir, &img1).unwrap();
    std::mem::forget(db);
    let logs: Vec<(String, u64)> = std::fs::read_dir(&img1).unwrap().flatten().map(|e| (e.file_name().to_string_lossy().to_string(), e.metadata().unwrap().len())).filter(|x| x.0.starts_with("log")).collect();
    println!("crash image 1: log files {:?}", logs);
    // what is on stable storage in image 1: the tables as they are (A was flushed), nothing of B's log bytes
    std::fs::create_dir_all(&shadow).unwrap();
    for e in std::fs::read_dir(&img1).unwrap().flatten() {
        let n = e.file_name().to_string_lossy().to_string();
        if n.starts_with("table_") || n.starts_with("index_") {
            crate::common::copy_sparse(&e.path(), &shadow.join(&n)).unwrap();
        }
    }
    let durable = DurableState { db_dir: img1.clone(), shadow: shadow.clone(), log_synced: logs.iter().map(|l| (l.0.clone(), 0u64)).collect() };
    // recovery of image 1, power loss right after the record was enacted (before recovery flushes the tables)
    let taken = std::sync::Arc::new(std::sync::atomic::AtomicBool::new(false));
    let (t2, i1, i2) = (taken.clone(), img1.clone(), img2.clone());
    // log syncs performed by the recovery itself count
    let durable = std::sync::Arc::new(std::sync::Mutex::new(durable));
    let d3 = durable.clone();
    let i1b = img1.clone();
    crate::sys::set_observer(Some(std::sync::Arc::new(move |call: &str, name: &str, ret: i64| {
        if ret == 0 && (call == "fdatasync" || call == "fsync") && name.starts_with("log") {
            if let Ok(m) = std::fs::metadata(i1b.join(name)) {
                d3.lock().unwrap().log_synced.insert(name.to_string(), m.len());
            }
        }
    })));
    let d2 = durable.clone();
    parity_db::verif::set_sink(Some(std::sync::Arc::new(move |n: &'static str, _a: &[u64]| {
        if n == "EnactEnd" && !t2.swap(true, std::sync::atomic::Ordering::SeqCst) {
            crate::sys::quiet(|| {
                let _ = copy_dir(&i1, &i2);
                // the small-value table and the index reached the disk, the large-value table did not
                let mut k = 0u64;
                let mut pick = |n: u64| {
                    k += 1;
                    if n == 2 { 1 } else { 0 }
                };
                let _ = d2.lock().unwrap().apply_power_loss(&i2, &mut pick);
            });
        }
    })));
    let mut o1 = o.clone();
    o1.path = img1.clone();
    let _ = std::fs::remove_file(img1.join("lock"));
    let r = Db::open(&o1);
    parity_db::verif::set_sink(None);
    crate::sys::set_observer(None);
    println!("first recovery: {:?}; image 2 taken during it: {}", r.as_ref().map(|_| ()).map_err(|e| e.to_string()), taken.load(std::sync::atomic::Ordering::SeqCst));
    if let Ok(d) = r {
        println!("  (uninterrupted recovery sees b-small={:?} b-large={:?})", d.get(0, b"b-small").unwrap().map(|v| v.len()), d.get(0, b"b-large").unwrap().map(|v| v.len()));
        std::mem::forget(d);
    }
    // image 2 as built above keeps every table "as now" (pick(2) = 1): replace the large-value table by its durable version
    for e in std::fs::read_dir(&img2).unwrap().flatten() {
        let n = e.file_name().to_string_lossy().to_string();
        if n.starts_with("table_") {
            let cur = std::fs::read(e.path()).unwrap();
            let old = std::fs::read(shadow.join(&n)).unwrap_or_default();
            println!("  image 2 {n}: {} bytes now, {} bytes durable, differs {}", cur.len(), old.len(), cur != old);
        }
    }
    let big = std::fs::read_dir(&img2).unwrap().flatten().map(|e| e.file_name().to_string_lossy().to_string()).filter(|n| n.starts_with("table_")).max_by_key(|n| std::fs::metadata(img2.join(n)).map(|m| m.len()).unwrap_or(0));
    let _ = big;
    // the table of the 300-byte values: the one whose name is not the 10-byte tier; take the table with the larger entry size
    let mut tables: Vec<String> = std::fs::read_dir(&img2).unwrap().flatten().map(|e| e.file_name().to_string_lossy().to_string()).filter(|n| n.starts_with("table_")).collect();
    tables.sort();
    if let Some(last) = tables.last() {
        crate::common::copy_sparse(&shadow.join(last), &img2.join(last)).unwrap();
        println!("  power loss: {last} keeps its durable content, the other files keep what recovery wrote, the log is empty");
    }
    let mut o2 = o.clone();
    o2.path = img2.clone();
    let _ = std::fs::remove_file(img2.join("lock"));
    let mut viol: Vec<String> = Vec::new();
    match Db::open(&o2) {
        Ok(d) => {
            let g = |k: &[u8]| d.get(0, k).ok().flatten().map(|x| x.len());
            let (a1, a2, b1, b2) = (g(b"a-small"), g(b"a-large"), g(b"b-small"), g(b"b-large"));
            println!("second recovery: a-small={a1:?} a-large={a2:?} b-small={b1:?} b-large={b2:?}");
            if a1 != Some(10) || a2 != Some(300) {
                viol.push("transaction A (applied and flushed before the first crash) is damaged after the second recovery".into());
            }
            if b1.is_some() != b2.is_some() {
                viol.push(format!("power loss during the recovery that followed a process crash tore transaction B: b-small={b1:?} b-large={b2:?} (its log record was applied to the tables before the log bytes were synced)"));
            }
        },
        Err(e) => viol.push(format!("second recovery failed: {e}")),
    }
    println!("{}", serde_json::json!({"which": "power-loss-in-recovery", "image_taken": taken.load(std::sync::atomic::Ordering::SeqCst), "violations": viol}));
    for d in [&dir, &img1, &img2, &shadow] {
        let _ = std::fs::remove_dir_all(d);
    }
    0
}
