//! Replay of spec/MultiTree.tla behaviours (C10, C11) through the multitree API:
//! commit_changes(InsertTree / ReferenceTree / DereferenceTree), get_tree + TreeReader under a
//! reader lock held by a reader thread, get_root / get_node on direct-access columns,
//! get_num_column_value_entries, and the ref-count table (structural dump).
//!
//! Model node ids stand for value-table addresses: the harness builds the id <-> address
//! bijection while it compares trees and forgets an id when the model frees it.

use crate::common::*;
use parity_db::{ColumnOptions, CompressionType, Db, NewNode, NodeRef, Operation, Options, TreeReader};
use serde_json::{json, Value as J};
use std::collections::{HashMap, HashSet};
use std::path::Path;
use std::sync::mpsc::{channel, Receiver, Sender};
use std::sync::{Arc, Mutex};

type NodeVal = Option<(Vec<u8>, Vec<u64>)>;

#[derive(Clone, Debug)]
pub struct Variant {
    pub rc: bool,
    pub ao: bool,
    pub direct: bool,
    pub compress: bool,
    pub big: bool,  // node sizes include multi-part values
    pub pads: bool, // extra leaf children (fan-out up to 255)
}

impl Variant {
    pub fn parse(s: &str) -> Variant {
        let has = |x: &str| s.split(',').any(|y| y == x);
        Variant { rc: has("rc"), ao: has("ao"), direct: has("direct"), compress: has("compress"), big: has("big"), pads: has("pads") }
    }
}

pub fn mt_options(dir: &Path, v: &Variant, threads: bool) -> Options {
    let mut tree = ColumnOptions::default();
    tree.multitree = true;
    tree.append_only = v.ao;
    tree.allow_direct_node_access = v.direct;
    if v.rc {
        tree.ref_counted = true;
        tree.preimage = true;
    }
    if v.compress {
        tree.compression = CompressionType::Lz4;
    }
    let plain = ColumnOptions::default();
    let mut o = Options::with_columns(dir, 2);
    o.columns = vec![tree, plain];
    o.with_background_thread = threads;
    o.always_flush = true;
    o.sync_wal = true;
    o.sync_data = true;
    o
}

fn mix(a: u64, b: u64) -> u64 {
    let mut h = a ^ 0x9e3779b97f4a7c15u64.wrapping_mul(b.wrapping_add(0x632be59bd9b4e019));
    h ^= h >> 29;
    h = h.wrapping_mul(0xbf58476d1ce4e5b9);
    h ^= h >> 32;
    h
}

fn bytes_of(tag: u64, n: u64, len: usize) -> Vec<u8> {
    let mut v = Vec::with_capacity(len);
    let mut s = mix(tag, n);
    v.extend_from_slice(&(n as u32).to_le_bytes()[..len.min(4)]);
    while v.len() < len {
        s = mix(s, 1);
        v.push((s & 0xff) as u8);
    }
    v
}

pub struct Univ {
    pub seed: u64,
    pub v: Variant,
}

impl Univ {
    pub fn tkey(&self, k: u64) -> Vec<u8> {
        bytes_of(mix(self.seed, 11), k, 32)
    }
    pub fn xkey(&self, x: u64) -> Vec<u8> {
        bytes_of(mix(self.seed, 12), x, 32)
    }
    pub fn xval(&self, v: u64) -> Vec<u8> {
        bytes_of(mix(self.seed, 13), v, 5 + (v as usize) * 40)
    }
    fn size(&self, tag: u64, n: u64) -> usize {
        // value-table tiers end at 32 kB: node = data + 8 * children + 1
        let small = [0usize, 1, 4, 7, 22, 23, 24, 31, 32, 33, 60, 100, 254, 1000, 4000];
        let big = [20_000usize, 32_700, 33_000, 70_000];
        let r = mix(mix(self.seed, tag), n);
        if self.v.big && r % 5 == 0 {
            big[(r >> 8) as usize % big.len()]
        } else {
            small[(r >> 8) as usize % small.len()]
        }
    }
    pub fn node_data(&self, id: u64) -> Vec<u8> {
        bytes_of(mix(self.seed, 14), id, self.size(14, id))
    }
    pub fn root_data(&self, cid: u64) -> Vec<u8> {
        bytes_of(mix(self.seed, 15), cid, self.size(15, cid))
    }
    /// number of extra leaf children appended to new node `id` that has `nkids` model children
    pub fn pad(&self, id: u64, nkids: usize) -> usize {
        if !self.v.pads {
            return 0
        }
        let r = mix(mix(self.seed, 16), id);
        match r % 8 {
            0 => 255 - nkids,
            1 => 3,
            2 => 1,
            3 => 17,
            _ => 0,
        }
    }
    pub fn pad_data(&self, id: u64, j: usize) -> Vec<u8> {
        bytes_of(mix(self.seed, 17), id * 1000 + j as u64, 3 + (j % 5) * 9)
    }
    pub fn has_multipart(&self) -> bool {
        self.v.big
    }
}

// ---- reader threads: hold get_tree(..).read() across steps ----

enum Req {
    Root,
    Node(u64),
    /// drop the guard, keep the handle returned by get_tree
    Release,
    /// lock the kept handle again
    Relock,
    Unlock,
}
enum Resp {
    Locked(bool),
    Val(Result<NodeVal, String>),
    Released,
    Unlocked,
}

pub struct ReaderHandle {
    tx: Sender<Req>,
    rx: Receiver<Resp>,
    join: Option<std::thread::JoinHandle<()>>,
}

impl ReaderHandle {
    /// get_tree + read(); returns None when the tree does not exist
    pub fn lock(db: Arc<Db>, key: Vec<u8>) -> Option<ReaderHandle> {
        let (tx, rrx) = channel::<Req>();
        let (rtx, rx) = channel::<Resp>();
        let join = std::thread::spawn(move || {
            let tree = match db.get_tree(0, &key) {
                Ok(Some(t)) => t,
                _ => {
                    let _ = rtx.send(Resp::Locked(false));
                    return
                },
            };
            loop {
                let mut keep = false;
                {
                    let guard = tree.read();
                    let _ = rtx.send(Resp::Locked(true));
                    for req in rrx.iter() {
                        match req {
                            Req::Root => {
                                let _ = rtx.send(Resp::Val(guard.get_root().map_err(|e| e.to_string())));
                            },
                            Req::Node(a) => {
                                let _ = rtx.send(Resp::Val(guard.get_node(a).map_err(|e| e.to_string())));
                            },
                            Req::Release => {
                                keep = true;
                                break
                            },
                            Req::Relock => {},
                            Req::Unlock => break,
                        }
                    }
                    drop(guard);
                }
                if !keep {
                    break
                }
                let _ = rtx.send(Resp::Released);
                // the client keeps the handle (Arc) while unlocked
                match rrx.recv() {
                    Ok(Req::Relock) => continue,
                    _ => break,
                }
            }
            drop(tree);
            drop(db);
            let _ = rtx.send(Resp::Unlocked);
        });
        let h = ReaderHandle { tx, rx, join: Some(join) };
        match h.rx.recv() {
            Ok(Resp::Locked(true)) => Some(h),
            _ => {
                let mut h = h;
                if let Some(j) = h.join.take() {
                    let _ = j.join();
                }
                None
            },
        }
    }
    /// release the lock but keep the handle of get_tree alive in the reader thread
    pub fn release(&self) -> bool {
        let _ = self.tx.send(Req::Release);
        matches!(self.rx.recv(), Ok(Resp::Released))
    }
    /// lock the kept handle again (no new get_tree call)
    pub fn relock(&self) -> bool {
        let _ = self.tx.send(Req::Relock);
        matches!(self.rx.recv(), Ok(Resp::Locked(true)))
    }
    pub fn unlock(mut self) {
        let _ = self.tx.send(Req::Unlock);
        let _ = self.rx.recv();
        if let Some(j) = self.join.take() {
            let _ = j.join();
        }
    }
}

pub trait Source {
    fn root(&self) -> Result<NodeVal, String>;
    fn node(&self, a: u64) -> Result<NodeVal, String>;
}

impl Source for ReaderHandle {
    fn root(&self) -> Result<NodeVal, String> {
        self.tx.send(Req::Root).map_err(|e| e.to_string())?;
        match self.rx.recv() {
            Ok(Resp::Val(v)) => v,
            _ => Err("reader thread gone".into()),
        }
    }
    fn node(&self, a: u64) -> Result<NodeVal, String> {
        self.tx.send(Req::Node(a)).map_err(|e| e.to_string())?;
        match self.rx.recv() {
            Ok(Resp::Val(v)) => v,
            _ => Err("reader thread gone".into()),
        }
    }
}

struct Local<'a>(&'a (dyn TreeReader + Send + Sync));
impl<'a> Source for Local<'a> {
    fn root(&self) -> Result<NodeVal, String> {
        self.0.get_root().map_err(|e| e.to_string())
    }
    fn node(&self, a: u64) -> Result<NodeVal, String> {
        self.0.get_node(a).map_err(|e| e.to_string())
    }
}

struct Direct<'a>(&'a Db, Vec<u8>);
impl<'a> Source for Direct<'a> {
    fn root(&self) -> Result<NodeVal, String> {
        self.0.get_root(0, &self.1).map_err(|e| e.to_string())
    }
    fn node(&self, a: u64) -> Result<NodeVal, String> {
        self.0.get_node(0, a).map_err(|e| e.to_string())
    }
}

/// run `f` on an unlocked-then-locked reader of the tree (None when get_tree says absent)
pub fn with_reader<R>(db: &Db, key: &[u8], f: impl FnOnce(Option<&dyn Source>) -> R) -> Result<R, String> {
    match db.get_tree(0, key).map_err(|e| e.to_string())? {
        None => Ok(f(None)),
        Some(t) => {
            let g = t.read();
            let l = Local(&**g);
            Ok(f(Some(&l)))
        },
    }
}

// ---- id <-> address bijection and tree comparison ----

#[derive(Default)]
pub struct Binding {
    pub id2addr: HashMap<u64, u64>,
    pub addr2id: HashMap<u64, u64>,
    /// pad children of a node id: addresses
    pub pads: HashMap<u64, Vec<u64>>,
}

impl Binding {
    fn forget(&mut self, id: u64) {
        if let Some(a) = self.id2addr.remove(&id) {
            self.addr2id.remove(&a);
        }
        self.pads.remove(&id);
    }
}

/// compare the tree under `src` with the model's tree (root record + kids map); binds new ids
fn compare_tree(
    u: &Univ,
    src: &dyn Source,
    want_root: &J,
    kids: &J,
    rc: &J,
    bind: &mut Binding,
    seen: &mut HashSet<u64>,
    who: &str,
) -> Result<(), String> {
    let root = src.root().map_err(|e| format!("{who}: get_root error {e}"))?;
    let want_live = want_root["rc"].as_u64().unwrap_or(0) > 0;
    let (data, children) = match (root, want_live) {
        (None, false) => return Ok(()),
        (None, true) => return Err(format!("{who}: root absent, expected the tree inserted by commit {}", want_root["data"])),
        (Some(_), false) => return Err(format!("{who}: root present, expected no tree")),
        (Some(x), true) => x,
    };
    let cid = want_root["data"].as_u64().unwrap();
    if data != u.root_data(cid) {
        return Err(format!("{who}: root data differs from what commit {cid} supplied ({} bytes read, {} expected)", data.len(), u.root_data(cid).len()))
    }
    let want_kids: Vec<u64> = want_root["kids"].as_array().unwrap().iter().map(|x| x.as_u64().unwrap()).collect();
    if children.len() != want_kids.len() {
        return Err(format!("{who}: root has {} children, commit {cid} supplied {}", children.len(), want_kids.len()))
    }
    for (i, (a, id)) in children.iter().zip(want_kids.iter()).enumerate() {
        compare_node(u, src, *a, *id, kids, rc, bind, seen, &format!("{who}: child {i} of root"))?;
    }
    Ok(())
}

#[allow(clippy::too_many_arguments)]
fn compare_node(
    u: &Univ,
    src: &dyn Source,
    addr: u64,
    id: u64,
    kids: &J,
    rc: &J,
    bind: &mut Binding,
    seen: &mut HashSet<u64>,
    who: &str,
) -> Result<(), String> {
    if rc[(id - 1) as usize].as_u64().unwrap_or(0) == 0 {
        return Err(format!("harness: model tree reaches freed node {id} ({who})"))
    }
    match (bind.id2addr.get(&id), bind.addr2id.get(&addr)) {
        (Some(a), _) if *a != addr => return Err(format!("{who}: address {addr:#x} where node {id} (address {a:#x}) was named")),
        (None, Some(other)) => return Err(format!("{who}: address {addr:#x} of node {other} used for new node {id}")),
        (None, None) => {
            bind.id2addr.insert(id, addr);
            bind.addr2id.insert(addr, id);
        },
        _ => {},
    }
    if !seen.insert(id) {
        return Ok(())
    }
    let (data, children) = match src.node(addr).map_err(|e| format!("{who}: get_node error {e}"))? {
        Some(x) => x,
        None => return Err(format!("{who}: node {id} at {addr:#x} is not readable")),
    };
    if data != u.node_data(id) {
        return Err(format!("{who}: node {id} data differs ({} bytes read, {} supplied)", data.len(), u.node_data(id).len()))
    }
    let want_kids: Vec<u64> = kids[(id - 1) as usize].as_array().unwrap().iter().map(|x| x.as_u64().unwrap()).collect();
    let npad = u.pad(id, want_kids.len());
    if children.len() != want_kids.len() + npad {
        return Err(format!("{who}: node {id} has {} children, {} supplied", children.len(), want_kids.len() + npad))
    }
    for (i, (a, cidn)) in children.iter().zip(want_kids.iter()).enumerate() {
        compare_node(u, src, *a, *cidn, kids, rc, bind, seen, &format!("{who}: child {i} of node {id}"))?;
    }
    let mut pad_addrs = Vec::new();
    for j in 0..npad {
        let a = children[want_kids.len() + j];
        match src.node(a).map_err(|e| format!("{who}: get_node error {e}"))? {
            Some((d, c)) =>
                if d != u.pad_data(id, j) || !c.is_empty() {
                    return Err(format!("{who}: leaf {j} of node {id} differs from what was supplied"))
                },
            None => return Err(format!("{who}: leaf {j} of node {id} at {a:#x} is not readable")),
        }
        if bind.addr2id.contains_key(&a) {
            return Err(format!("{who}: leaf {j} of node {id} shares address {a:#x} with node {}", bind.addr2id[&a]))
        }
        pad_addrs.push(a);
    }
    bind.pads.insert(id, pad_addrs);
    Ok(())
}

fn build_children(u: &Univ, sh: &J, next: &mut u64, bind: &Binding) -> Result<Vec<NodeRef>, String> {
    let mut out = Vec::new();
    for c in sh.as_array().unwrap() {
        if c["new"].as_bool().unwrap() {
            let id = *next;
            *next += 1;
            let mut children = build_children(u, &c["kids"], next, bind)?;
            let nk = children.len();
            for j in 0..u.pad(id, nk) {
                children.push(NodeRef::New(NewNode { data: u.pad_data(id, j), children: vec![] }));
            }
            out.push(NodeRef::New(NewNode { data: u.node_data(id), children }));
        } else {
            let id = c["ref"].as_u64().unwrap();
            match bind.id2addr.get(&id) {
                Some(a) => out.push(NodeRef::Existing(*a)),
                None => return Err(format!("harness: no address known for node {id}")),
            }
        }
    }
    Ok(out)
}

struct Run<'a> {
    u: &'a Univ,
    dir: std::path::PathBuf,
    db: Option<Arc<Db>>,
    bind: Binding,
    readers: HashMap<u64, ReaderHandle>,
    /// handles kept (unlocked) by clients after an Unlock step: the next Lock of that tree goes through them
    kept: HashMap<u64, ReaderHandle>,
    cid_off: u64,
    last_cid: u64,
    /// a clean close (drop with commits still queued) was performed at a Close step: the model's drain steps
    /// that follow happened inside that drop
    closing: bool,
    /// what the log-worker code did inside that drop: (commit id, id it was deferred to)
    close_log: std::collections::VecDeque<(u64, Option<u64>)>,
    crashes: usize,
    events: Arc<Mutex<Vec<(String, Vec<u64>)>>>,
    /// fine-grained schedules: the log worker's step runs on its own thread and is held at
    /// BeginRecord (after the deferral check, before the plan)
    gate: Arc<Mutex<Option<Arc<crate::workers::Gate>>>>,
    worker: Option<std::thread::JoinHandle<Result<Result<(), parity_db::Error>, String>>>,
}

impl<'a> Run<'a> {
    fn install_sink(&self) {
        let ev = self.events.clone();
        let gate = self.gate.clone();
        let me = std::thread::current().id();
        parity_db::verif::set_sink(Some(Arc::new(move |n: &'static str, a: &[u64]| {
            if matches!(n, "Pop" | "Defer" | "BeginRecord" | "CommitLin") {
                ev.lock().unwrap().push((n.to_string(), a.to_vec()));
            }
            if n == "BeginRecord" && std::thread::current().id() != me {
                let g = gate.lock().unwrap().clone();
                if let Some(g) = g {
                    g.pass();
                }
            }
        })));
    }

    fn db(&self) -> &Db {
        self.db.as_ref().unwrap()
    }

    fn open(&mut self) -> Result<(), String> {
        let o = mt_options(&self.dir, &self.u.v, false);
        let db = catch(|| Db::open_or_create(&o)).map_err(|p| format!("open panicked: {p}"))?.map_err(|e| format!("open: {e}"))?;
        self.db = Some(Arc::new(db));
        Ok(())
    }

    fn observe(&mut self, o: &J, nt: usize, nx: usize) -> Result<(), String> {
        let u = self.u;
        // trees, through a fresh reader (and direct access), and through the held reader locks
        for k in 1..=nt as u64 {
            let want = &o["vis"][(k - 1) as usize];
            let key = u.tkey(k);
            let mut seen = HashSet::new();
            let db = self.db.clone().unwrap();
            let bind = &mut self.bind;
            // the parked log worker holds this tree's write lock: a reader would wait for it
            let wlocked = o["wlocked"].as_array().map_or(false, |a| a.iter().any(|x| x.as_u64() == Some(k)));
            if wlocked {
                if u.v.direct {
                    let mut seen = HashSet::new();
                    let d = Direct(&db, key.clone());
                    catch(|| compare_tree(u, &d, want, &o["kids"], &o["rc"], bind, &mut seen, &format!("tree {k} (direct access)")))
                        .map_err(|p| format!("tree {k}: direct read panicked: {p}"))??;
                }
                continue
            }
            let r = catch(|| {
                with_reader(&db, &key, |src| match src {
                    None =>
                        if want["rc"].as_u64().unwrap() > 0 {
                            Err(format!("tree {k}: get_tree says absent, expected the tree inserted by commit {}", want["data"]))
                        } else {
                            Ok(())
                        },
                    Some(s) => compare_tree(u, s, want, &o["kids"], &o["rc"], bind, &mut seen, &format!("tree {k}")),
                })
            })
            .map_err(|p| format!("tree {k}: read panicked: {p}"))?;
            r??;
            if u.v.direct || u.v.ao {
                let mut seen = HashSet::new();
                let d = Direct(&db, key.clone());
                catch(|| compare_tree(u, &d, want, &o["kids"], &o["rc"], bind, &mut seen, &format!("tree {k} (direct access)")))
                    .map_err(|p| format!("tree {k}: direct read panicked: {p}"))??;
            }
            if let Some(h) = self.readers.get(&k) {
                let mut seen = HashSet::new();
                compare_tree(u, h, want, &o["kids"], &o["rc"], bind, &mut seen, &format!("tree {k} (held reader lock)"))?;
            }
        }
        // forget freed nodes
        let rc = o["rc"].as_array().unwrap();
        let bound: Vec<u64> = self.bind.id2addr.keys().copied().collect();
        for id in bound {
            if rc[(id - 1) as usize].as_u64().unwrap() == 0 {
                self.bind.forget(id);
            }
        }
        // plain column
        for x in 1..=nx as u64 {
            let want = o["x"][(x - 1) as usize].as_u64().unwrap();
            let got = self.db().get(1, &u.xkey(x)).map_err(|e| format!("get: {e}"))?;
            let exp = if want == 0 { None } else { Some(u.xval(want)) };
            if got != exp {
                return Err(format!("plain key {x}: read differs from value {want}"))
            }
        }
        // storage: every live node (and its leaves) and every stored root occupies one entry
        let mut want_entries = o["entries"].as_u64().unwrap();
        for (i, c) in rc.iter().enumerate() {
            if c.as_u64().unwrap() > 0 {
                let id = i as u64 + 1;
                want_entries += u.pad(id, o["kids"][i].as_array().unwrap().len()) as u64;
            }
        }
        // slots claimed by commits lost in a crash stay allocated (model: leaked), with their leaves
        for l in o["leaked"].as_array().map(|a| a.as_slice()).unwrap_or(&[]) {
            let id = l.as_u64().unwrap();
            want_entries += u.pad(id, o["kids"][(id - 1) as usize].as_array().unwrap().len()) as u64;
        }
        match self.db().get_num_column_value_entries(0) {
            Ok(n) =>
                if n != want_entries {
                    return Err(format!("column holds {n} entries, {want_entries} expected (live nodes + stored roots)"))
                },
            Err(e) =>
                if !u.has_multipart() {
                    return Err(format!("get_num_column_value_entries: {e}"))
                },
        }
        Ok(())
    }

    /// node reference counts in the ref-count table (after the logs are enacted)
    fn check_counts(&mut self, o: &J) -> Result<(), String> {
        if self.u.v.ao {
            return Ok(())
        }
        let d = self.db().verif_dump(0).map_err(|e| format!("dump: {e}"))?;
        let mut counts: HashMap<u64, u64> = HashMap::new();
        for (_bits, entries) in d.ref_counts.iter() {
            for (a, c) in entries {
                counts.entry(*a).or_insert(*c);
            }
        }
        if std::env::var("PDBH_DEBUG").is_ok() {
            eprintln!("ref_counts: {:?} bind: {:?}", d.ref_counts, self.bind.id2addr);
        }
        let rc = o["rc"].as_array().unwrap();
        let mut live_addrs: HashSet<u64> = HashSet::new();
        for (id, a) in self.bind.id2addr.iter() {
            let want = rc[(*id - 1) as usize].as_u64().unwrap();
            let got = counts.get(a).copied().unwrap_or(1);
            live_addrs.insert(*a);
            if want > 0 && got != want {
                return Err(format!("node {id} at {a:#x}: stored reference count {got}, {want} parents reference it"))
            }
        }
        for (a, c) in counts.iter() {
            if !live_addrs.contains(a) {
                return Err(format!("ref-count table has count {c} for address {a:#x} that belongs to no live node"))
            }
        }
        Ok(())
    }

    /// value tables of the tree column when drained: the free list is well formed, every slot below
    /// the fill mark is free, a live node / leaf, a stored root, or one of the slots the model says
    /// were lost in a crash; returns the number of orphan slots (neither free nor live)
    fn check_structure(&mut self, o: &J) -> Result<u64, String> {
        let orphans = self.census()?;
        Ok(orphans)
    }

    /// slot census of the tree column's value tables (drained): number of orphan slots
    fn census(&mut self) -> Result<u64, String> {
        let d = self.db().verif_dump(0).map_err(|e| format!("dump: {e}"))?;
        let mut live: HashSet<(u8, u64)> = HashSet::new();
        for a in self.bind.id2addr.values().chain(self.bind.pads.values().flatten()) {
            live.insert(((a & 0xff) as u8, a >> 8));
        }
        let mut roots: HashSet<(u8, u64)> = HashSet::new();
        for ix in d.indexes.iter() {
            for (_c, _s, _pk, tier, off) in ix.entries.iter() {
                roots.insert((*tier, *off));
            }
        }
        let mut orphans = 0u64;
        for t in d.tables.iter().filter(|t| t.exists) {
            if t.mem_filled != t.file_filled || t.mem_last_removed != t.file_last_removed {
                return Err(format!("tier {}: header in memory (filled {}, free head {}) differs from the file ({}, {}) when drained",
                                   t.tier, t.mem_filled, t.mem_last_removed, t.file_filled, t.file_last_removed))
            }
            // free list
            let mut on_list: HashSet<u64> = HashSet::new();
            let mut next = t.file_last_removed;
            while next != 0 {
                if next >= t.file_filled || next as usize > t.slots.len() {
                    return Err(format!("tier {}: free list leaves the table (slot {next}, filled {})", t.tier, t.file_filled))
                }
                if !on_list.insert(next) {
                    return Err(format!("tier {}: free list is cyclic at slot {next}", t.tier))
                }
                let (k, n) = crate::dump::classify(t, &t.slots[next as usize - 1]);
                if k != "free" {
                    return Err(format!("tier {}: free list runs through slot {next} which is in use", t.tier))
                }
                next = n;
            }
            if t.multipart {
                continue
            }
            for (i, s) in t.slots.iter().enumerate() {
                let idx = i as u64 + 1;
                let (k, _) = crate::dump::classify(t, s);
                let at = (t.tier, idx);
                if k == "free" {
                    if live.contains(&at) || roots.contains(&at) {
                        return Err(format!("tier {} slot {idx}: a live node / root is stored in a freed slot", t.tier))
                    }
                    if !on_list.contains(&idx) {
                        orphans += 1;
                    }
                } else {
                    if on_list.contains(&idx) {
                        return Err(format!("tier {} slot {idx}: used slot on the free list", t.tier))
                    }
                    if !live.contains(&at) && !roots.contains(&at) {
                        orphans += 1;
                    }
                }
            }
            for at in live.iter().chain(roots.iter()).filter(|a| a.0 == t.tier) {
                if at.1 == 0 || at.1 >= t.file_filled {
                    return Err(format!("tier {} slot {}: live node / root beyond the fill mark {}", t.tier, at.1, t.file_filled))
                }
            }
        }
        Ok(orphans)
    }

    fn drain(&self) -> Result<(), String> {
        let db = self.db();
        db.flush_logs().map_err(|e| format!("flush_logs: {e}"))?;
        // an enact call that meets the end of a log file returns false once: go on with the next file
        // (one pass per log file; long histories leave many files behind)
        for _ in 0..64 {
            while enact_one_guarded(db).map_err(|e| format!("enact: {e}"))? {}
        }
        db.clean_logs().map_err(|e| format!("clean_logs: {e}"))?;
        Ok(())
    }

    fn with_events<R>(&self, f: impl FnOnce() -> R) -> (R, Vec<(String, Vec<u64>)>) {
        self.events.lock().unwrap().clear();
        let r = f();
        let e = self.events.lock().unwrap().clone();
        (r, e)
    }

    fn step(&mut self, st: &J) -> Result<(), String> {
        let u = self.u;
        let a = st["a"].as_str().unwrap();
        if self.closing && matches!(a, "Defer" | "Process" | "Pop" | "Apply") {
            // a drain step of the clean close: it happened inside drop(); compare with what the hooks saw there
            if a == "Apply" {
                return Ok(())
            }
            let cid = st["cid"].as_u64().unwrap() - self.cid_off;
            let want = if a == "Defer" {
                let ncid = st["ncid"].as_u64().unwrap();
                self.last_cid = self.last_cid.max(ncid);
                (cid, Some(ncid - self.cid_off))
            } else {
                (cid, None)
            };
            return match self.close_log.pop_front() {
                Some(got) if got == want => Ok(()),
                got => Err(format!("drop() with queued commits: the specification's drain step is {want:?} (commit, deferred to), the log worker code did {got:?}")),
            }
        }
        match a {
            "Commit" => {
                let tx = &st["tx"];
                let t = &tx["tree"];
                let mut ops: Vec<(u8, Operation<Vec<u8>, Vec<u8>>)> = Vec::new();
                match t["t"].as_str().unwrap() {
                    "ins" => {
                        let new = t["new"].as_array().unwrap();
                        let mut next = new.iter().map(|n| n["id"].as_u64().unwrap()).min().unwrap_or(0);
                        let children = build_children(u, &st["sh"], &mut next, &self.bind)?;
                        let cid = tx["cid"].as_u64().unwrap();
                        ops.push((0, Operation::InsertTree(u.tkey(t["k"].as_u64().unwrap()), NewNode { data: u.root_data(cid), children })));
                        // the same transaction dereferences another tree (insert the new state, prune an old one)
                        let dk = t["dk"].as_u64().unwrap_or(0);
                        if dk != 0 {
                            ops.push((0, Operation::DereferenceTree(u.tkey(dk))));
                        }
                    },
                    "deref" => ops.push((0, Operation::DereferenceTree(u.tkey(t["k"].as_u64().unwrap())))),
                    "ref" => ops.push((0, Operation::ReferenceTree(u.tkey(t["k"].as_u64().unwrap())))),
                    _ => {},
                }
                let x = tx["set"]["x"].as_u64().unwrap();
                if x != 0 {
                    ops.push((1, Operation::Set(u.xkey(x), u.xval(tx["set"]["v"].as_u64().unwrap()))));
                }
                let cid = tx["cid"].as_u64().unwrap();
                self.last_cid = self.last_cid.max(cid);
                let db = self.db.clone().unwrap();
                let (r, ev) = self.with_events(|| catch(|| db.commit_changes(ops)));
                r.map_err(|p| format!("commit panicked: {p}"))?.map_err(|e| format!("accepted by the specification, rejected by commit_changes: {e}"))?;
                let lin: Vec<u64> = ev.iter().filter(|e| e.0 == "CommitLin").map(|e| e.1[0]).collect();
                if lin != vec![cid - self.cid_off] {
                    return Err(format!("commit ids {lin:?}, specification has {}", cid - self.cid_off))
                }
                Ok(())
            },
            "Lock" => {
                let k = st["k"].as_u64().unwrap();
                if let Some(h) = self.kept.remove(&k) {
                    // a client that kept the handle of an earlier get_tree locks it again
                    if !h.relock() {
                        return Err(format!("tree {k}: the kept reader handle could not be locked again"))
                    }
                    match h.root() {
                        Ok(Some(_)) => {},
                        Ok(None) => return Err(format!("tree {k}: kept reader handle locked again: root absent, the specification has a visible root")),
                        Err(e) => return Err(format!("tree {k}: kept reader handle: {e}")),
                    }
                    self.readers.insert(k, h);
                    return Ok(())
                }
                match ReaderHandle::lock(self.db.clone().unwrap(), u.tkey(k)) {
                    Some(h) => {
                        self.readers.insert(k, h);
                        Ok(())
                    },
                    None => Err(format!("tree {k}: get_tree says absent, the specification has a visible root"))
                }
            },
            "Unlock" => {
                let k = st["k"].as_u64().unwrap();
                if let Some(h) = self.readers.remove(&k) {
                    // every other unlock keeps the handle (seeded by the universe and the key)
                    if mix(u.seed, 31 + k + self.last_cid) % 2 == 0 && h.release() {
                        self.kept.insert(k, h);
                    } else {
                        h.unlock();
                    }
                }
                Ok(())
            },
            "Process" | "Defer" => {
                let db = self.db.clone().unwrap();
                let (r, ev) = self.with_events(|| catch(|| db.process_commits()));
                r.map_err(|p| format!("process_commits panicked: {p}"))?.map_err(|e| format!("process_commits: {e}"))?;
                let cid = st["cid"].as_u64().unwrap() - self.cid_off;
                let pops: Vec<u64> = ev.iter().filter(|e| e.0 == "Pop").map(|e| e.1[0]).collect();
                let defers: Vec<Vec<u64>> = ev.iter().filter(|e| e.0 == "Defer").map(|e| e.1.clone()).collect();
                let begun = ev.iter().any(|e| e.0 == "BeginRecord");
                if pops != vec![cid] {
                    return Err(format!("log worker took commit {pops:?}, specification: {cid}"))
                }
                if a == "Defer" {
                    let ncid = st["ncid"].as_u64().unwrap();
                    self.last_cid = self.last_cid.max(ncid);
                    if defers != vec![vec![cid, ncid - self.cid_off]] || begun {
                        return Err(format!("commit {cid} was processed, the specification defers it (tree locked or used): deferred={defers:?}"))
                    }
                } else if !defers.is_empty() || !begun {
                    return Err(format!("commit {cid} was deferred ({defers:?}), the specification processes it"))
                }
                Ok(())
            },
            "Pop" => {
                let cid = st["cid"].as_u64().unwrap() - self.cid_off;
                self.events.lock().unwrap().clear();
                let g = crate::workers::Gate::new();
                *self.gate.lock().unwrap() = Some(g.clone());
                let db = self.db.clone().unwrap();
                let w = std::thread::spawn(move || catch(|| db.process_commits()));
                let start = std::time::Instant::now();
                while !g.wait_reached(0) && !w.is_finished() && start.elapsed().as_secs() < 30 {
                    std::thread::sleep(std::time::Duration::from_millis(1));
                }
                let reached = g.wait_reached(0);
                self.worker = Some(w);
                let ev = self.events.lock().unwrap().clone();
                let pops: Vec<u64> = ev.iter().filter(|e| e.0 == "Pop").map(|e| e.1[0]).collect();
                if !reached {
                    return Err(format!("the log worker did not start a record for commit {cid} (events {ev:?}); the specification has it pass the deferral check"))
                }
                if pops != vec![cid] {
                    return Err(format!("log worker took commit {pops:?}, specification: {cid}"))
                }
                Ok(())
            },
            "Apply" => {
                let g = self.gate.lock().unwrap().take();
                if let Some(g) = g {
                    g.open();
                }
                match self.worker.take() {
                    Some(w) => match w.join() {
                        Ok(Ok(Ok(_))) => Ok(()),
                        Ok(Ok(Err(e))) => Err(format!("process_commits: {e}")),
                        Ok(Err(p)) => Err(format!("process_commits panicked: {p}")),
                        Err(_) => Err("harness: worker thread died".into()),
                    },
                    None => Err("harness: Apply without Pop".into()),
                }
            },
            "Pipe" => {
                let db = self.db();
                match st["w"].as_str().unwrap() {
                    "flush" => db.flush_logs().map(|_| ()).map_err(|e| format!("flush_logs: {e}")),
                    "enact" => enact_one_guarded(db).map(|_| ()).map_err(|e| format!("enact: {e}")),
                    _ => db.clean_logs().map(|_| ()).map_err(|e| format!("clean_logs: {e}")),
                }
            },
            "Close" => {
                // drop() with a non-empty queue: it must log every queued commit (deferring where it has to),
                // apply everything and persist it; nothing is drained beforehand
                for (_, h) in self.kept.drain() {
                    h.unlock();
                }
                let db = self.db.take().unwrap();
                let d = match Arc::try_unwrap(db) {
                    Ok(d) => d,
                    Err(_) => return Err("harness: database handle still shared at close".into()),
                };
                let (r, ev) = self.with_events(|| catch(move || drop(d)));
                r.map_err(|p| format!("panic in drop: {p}"))?;
                self.close_log.clear();
                for e in ev.iter() {
                    if e.0 == "Pop" {
                        self.close_log.push_back((e.1[0], None));
                    } else if e.0 == "Defer" {
                        if let Some(l) = self.close_log.back_mut() {
                            l.1 = Some(e.1[1]);
                        }
                    }
                }
                self.closing = true;
                self.open()
            },
            "Reopen" => {
                self.closing = false;
                if !self.close_log.is_empty() {
                    return Err(format!("drop() processed more commits than the specification's drain: {:?}", self.close_log))
                }
                self.cid_off = self.last_cid;
                Ok(())
            },
            "Restart" => {
                for (_, h) in self.kept.drain() {
                    h.unlock();
                }
                self.drain()?;
                let db = self.db.take().unwrap();
                match Arc::try_unwrap(db) {
                    Ok(d) => drop(d),
                    Err(_) => return Err("harness: database handle still shared at restart".into()),
                }
                self.cid_off = self.last_cid;
                self.open()
            },
            "Crash" => {
                // the process dies here: the directory as it is now is what the next open sees
                for (_, h) in self.kept.drain() {
                    h.unlock();
                }
                self.crashes += 1;
                let img = self.dir.with_file_name(format!("{}_c{}", self.dir.file_name().unwrap().to_string_lossy(), self.crashes));
                let _ = std::fs::remove_dir_all(&img);
                copy_dir(&self.dir, &img).map_err(|e| format!("image copy: {e}"))?;
                let db = self.db.take().unwrap();
                match Arc::try_unwrap(db) {
                    Ok(d) => {
                        let _ = catch(move || drop(d));
                    },
                    Err(_) => return Err("harness: database handle still shared at crash".into()),
                }
                let _ = std::fs::remove_dir_all(&self.dir);
                self.dir = img;
                self.cid_off = self.last_cid;
                self.open()
            },
            "Reject" => {
                let k = st["k"].as_u64().unwrap();
                let leaf = |i: u64| NodeRef::New(NewNode { data: bytes_of(77, i, 6), children: vec![] });
                let ops: Vec<(u8, Operation<Vec<u8>, Vec<u8>>)> = match st["why"].as_str().unwrap() {
                    "wide" => {
                        let n = st["n"].as_u64().unwrap();
                        vec![(0, Operation::InsertTree(u.tkey(k), NewNode { data: vec![1, 2, 3], children: (0..n).map(leaf).collect() }))]
                    },
                    "deref_missing" => vec![(0, Operation::DereferenceTree(u.tkey(k)))],
                    "plain_op" => vec![(1, Operation::Set(u.xkey(1), vec![9])), (0, Operation::Set(u.tkey(k), vec![1]))],
                    // a valid insertion (it claims two nodes) followed by one that cannot be stored
                    "ins_then_wide" => vec![
                        (0, Operation::InsertTree(u.tkey(k), NewNode { data: vec![4, 5], children: vec![leaf(1), leaf(2)] })),
                        (0, Operation::InsertTree(u.tkey(k), NewNode { data: vec![6], children: (0..256).map(leaf).collect() })),
                    ],
                    // a valid insertion followed by the dereference of a root that does not exist BEFORE the transaction:
                    // the tree the transaction itself inserts, or another absent one
                    "ins_then_deref" => vec![
                        (0, Operation::InsertTree(u.tkey(k), NewNode { data: vec![4, 5], children: vec![leaf(1), leaf(2)] })),
                        (0, Operation::DereferenceTree(u.tkey(k))),
                    ],
                    "ins_then_deref_absent" => vec![
                        (0, Operation::InsertTree(u.tkey(k), NewNode { data: vec![4, 5], children: vec![leaf(1)] })),
                        (0, Operation::DereferenceTree(u.tkey(97))),
                    ],
                    _ => vec![
                        (0, Operation::InsertTree(u.tkey(k), NewNode { data: vec![4, 5], children: vec![leaf(1), leaf(2)] })),
                        (0, Operation::Set(u.tkey(k), vec![1])),
                    ],
                };
                let db = self.db.clone().unwrap();
                let r = catch(|| db.commit_changes(ops)).map_err(|p| format!("commit panicked: {p}"))?;
                if r.is_ok() {
                    return Err(format!("transaction that cannot be represented / is invalid ({}) was accepted", st["why"]))
                }
                Ok(())
            },
            other => Err(format!("harness: unknown step {other}")),
        }
    }
}

/// `pdbh mtree-replay --in F --out F --seed N --variant rc,direct,...`
pub fn cmd_replay(args: &HashMap<String, String>) -> i32 {
    let input = std::fs::read_to_string(&args["in"]).expect("read");
    let seed: u64 = args.get("seed").and_then(|s| s.parse().ok()).unwrap_or(1);
    let v = Variant::parse(args.get("variant").map(|s| s.as_str()).unwrap_or(""));
    let root = scratch_root();
    let mut outf = std::io::BufWriter::new(std::fs::File::create(&args["out"]).unwrap());
    use std::io::Write;
    for (idx, line) in input.lines().enumerate() {
        if line.trim().is_empty() {
            continue
        }
        let b: J = serde_json::from_str(line).unwrap();
        let steps = b["steps"].as_array().unwrap();
        let obs = b["obs"].as_array().unwrap();
        let u = Univ { seed: mix(seed, idx as u64), v: v.clone() };
        let dir = fresh_dir(&root, &format!("mt{idx}"));
        let mut run = Run { u: &u, dir: dir.clone(), db: None, bind: Binding::default(), readers: HashMap::new(), kept: HashMap::new(), cid_off: 0, last_cid: 0, closing: false, close_log: Default::default(), crashes: 0,
                            events: Arc::new(Mutex::new(Vec::new())), gate: Arc::new(Mutex::new(None)), worker: None };
        run.install_sink();
        let mut viol: Vec<J> = Vec::new();
        let mut nontrivial = false;
        let mut leak_seen = 0u64;
        if let Err(e) = run.open() {
            viol.push(json!({"step": 0, "a": "Open", "what": e}));
        } else {
            let nt = obs.first().map(|o| o["vis"].as_array().unwrap().len()).unwrap_or(0);
            let nx = obs.first().map(|o| o["x"].as_array().unwrap().len()).unwrap_or(0);
            for (i, (st, o)) in steps.iter().zip(obs.iter()).enumerate() {
                let a = st["a"].as_str().unwrap().to_string();
                if a == "Crash" && o["qlen"].as_u64() == Some(0) && i > 0 && obs[i - 1]["qlen"].as_u64().unwrap_or(0) > 0 {
                    nontrivial = true;
                }
                if a == "Defer" || (a == "Commit" && st["tx"]["tree"]["incs"].as_array().map_or(false, |x| !x.is_empty())) {
                    nontrivial = true;
                }
                let r = catch(|| run.step(st).and_then(|_| if run.closing { Ok(()) } else { run.observe(o, nt, nx) }).and_then(|_| {
                    if run.closing {
                        return Ok(())
                    }
                    // (quiescent: nothing queued and nothing taken by a parked log worker)
                    if o["quiescent"].as_bool() == Some(true) && (a == "Restart" || i + 1 == steps.len() || i % 5 == 4) && run.readers.is_empty() {
                        run.drain().and_then(|_| run.check_counts(o)).and_then(|_| run.check_structure(o)).map(|orph| {
                            if orph > 0 {
                                leak_seen = orph;
                            }
                        })
                    } else {
                        Ok(())
                    }
                }))
                .unwrap_or_else(|p| Err(format!("panic: {p}")));
                if let Err(e) = r {
                    let what = if o["conflict"].as_bool() == Some(true) && !e.starts_with("harness:") { format!("{e} [after a deferred commit was moved behind a commit writing the same key]") } else { e };
                    viol.push(json!({"step": i + 1, "a": a, "what": what}));
                    break
                }
                // the property itself: what the client may expect (ideal) against what is visible
                if o["conflict"].as_bool() == Some(true) {
                    let differs = o["ideal"].as_array().unwrap().iter().zip(o["vis"].as_array().unwrap()).any(|(i, v)| {
                        i["rc"].as_u64().unwrap() > 0 && (i["data"] != v["data"] || i["kids"] != v["kids"])
                    }) || o["idealX"] != o["x"]
                        || (o["quiescent"].as_bool() == Some(true) && o["ideal"] != o["app"]);
                    if differs && !viol.iter().any(|v| v["what"].as_str().map_or(false, |w| w.starts_with("deferral reorder"))) {
                        viol.push(json!({"step": i + 1, "a": a, "what": "deferral reorder: state differs from applying the transactions in commit order (the deferred commit was re-queued behind a later commit writing the same key)"}));
                    }
                }
            }
        }
        if leak_seen > 0 && viol.is_empty() {
            viol.push(json!({"step": steps.len(), "a": "Crash", "what": format!("slot leak after crash: {leak_seen} value-table slots claimed at commit time by transactions that were lost in the crash are neither in use nor on the free list")}));
        }
        for (_, h) in run.readers.drain().chain(run.kept.drain()) {
            h.unlock();
        }
        if let Some(g) = run.gate.lock().unwrap().take() {
            g.open();
        }
        if let Some(w) = run.worker.take() {
            let _ = w.join();
        }
        parity_db::verif::set_sink(None);
        let dbx = run.db.take();
        let _ = catch(move || drop(dbx));
        let _ = std::fs::remove_dir_all(&run.dir);
        let _ = std::fs::remove_dir_all(&dir);
        writeln!(outf, "{}", json!({"i": idx, "nontrivial": nontrivial, "violations": viol})).unwrap();
    }
    0
}

/// `pdbh mtree-scenario --which F18`: the schedule of the MultiTree.tla counterexample
/// (deferral check of a dereference; then a reader locks the tree, a writer commits a tree that
/// reuses one of its nodes, the reader unlocks; then the dereference walk runs).
/// Prints one JSON line: {"which", "reached", "lock_blocked", "violations": [..]}.
pub fn cmd_claimleak(_args: &HashMap<String, String>) -> i32 {
    let v = Variant::parse("");
    let u = Univ { seed: 5, v };
    let root = scratch_root();
    let dir = fresh_dir(&root, "leak");
    let db = Db::open_or_create(&mt_options(&dir, &u.v, false)).expect("open");
    let leaf = |id: u64| NodeRef::New(NewNode { data: u.node_data(id), children: vec![] });
    // B: plain write, queued first; A: tree insertion claims 2 nodes at commit time
    db.commit_changes(vec![(1u8, Operation::Set(u.xkey(1), u.xval(1)))]).unwrap();
    db.commit_changes(vec![(0u8, Operation::InsertTree(u.tkey(1), NewNode { data: u.root_data(1), children: vec![leaf(1), leaf(2)] }))]).unwrap();
    println!("entries after commit (claimed): {:?}", db.get_num_column_value_entries(0));
    db.process_commits().unwrap(); // B only
    db.flush_logs().unwrap();
    let img = fresh_dir(&root, "leak_img");
    copy_dir(&dir, &img).unwrap();
    let _ = std::fs::remove_file(img.join("lock"));
    let db2 = Db::open(&mt_options(&img, &u.v, false)).expect("open image");
    println!("image: entries {:?} x {:?} tree {:?}", db2.get_num_column_value_entries(0), db2.get(1, &u.xkey(1)).map(|v| v.is_some()), db2.get_tree(0, &u.tkey(1)).map(|t| t.is_some()));
    let d = db2.verif_dump(0).unwrap();
    for t in d.tables.iter().filter(|t| t.exists) { println!("tier {} file_filled {} free_head {} mem_filled {}", t.tier, t.file_filled, t.file_last_removed, t.mem_filled); }
    0
}

/// F20: a writer inserts a tree that reuses a node of tree 1, which it holds locked; a pruner's
/// DereferenceTree(1) is committed between the writer's read of the tree registry (used_trees) and the
/// queuing of its commit.  Schedule of the MultiTree.tla counterexample with a two-step commit.
fn scenario_f20(u: &Univ) -> (bool, Vec<String>) {
    use crate::workers::Gate;
    let root = scratch_root();
    let dir = fresh_dir(&root, "mtsc20");
    let db = Arc::new(Db::open_or_create(&mt_options(&dir, &u.v, false)).expect("open"));
    let mut viol: Vec<String> = Vec::new();
    let leaf = |id: u64| NodeRef::New(NewNode { data: u.node_data(id), children: vec![] });
    // T1 = root -> node 1 -> node 2
    db.commit_changes(vec![(0u8, Operation::InsertTree(u.tkey(1), NewNode { data: u.root_data(1),
        children: vec![NodeRef::New(NewNode { data: u.node_data(1), children: vec![leaf(2)] })] }))]).expect("commit T1");
    db.process_commits().expect("process");
    // the writer locks T1 and reads the address of node 1
    let h = match ReaderHandle::lock(db.clone(), u.tkey(1)) {
        Some(h) => h,
        None => return (false, vec!["harness: tree 1 absent".into()]),
    };
    let addr = match h.root() {
        Ok(Some((_, ch))) if ch.len() == 1 => ch[0],
        _ => return (false, vec!["harness: tree 1 unreadable".into()]),
    };
    // writer thread: InsertTree(T2 -> existing node 1, new leaf 3), held right after its used_trees read
    let gate = Gate::new();
    let g2 = gate.clone();
    let me = std::thread::current().id();
    parity_db::verif::set_sink(Some(Arc::new(move |n: &'static str, _a: &[u64]| {
        if n == "UsedTrees" && std::thread::current().id() != me {
            g2.pass();
        }
    })));
    let dbw = db.clone();
    let (k2, d2, l3) = (u.tkey(2), u.root_data(2), u.node_data(3));
    let writer = std::thread::spawn(move || {
        catch(|| dbw.commit_changes(vec![(0u8, Operation::InsertTree(k2, NewNode { data: d2,
            children: vec![NodeRef::Existing(addr), NodeRef::New(NewNode { data: l3, children: vec![] })] }))]))
    });
    let reached = gate.wait_reached(20);
    // pruner: DereferenceTree(T1) is committed now.  When the registry is read under the queue lock the
    // pruner's commit waits for the writer's: the gate is then opened first.
    let dbp = db.clone();
    let k1 = u.tkey(1);
    let (ptx, prx) = channel();
    std::thread::spawn(move || {
        let r = catch(|| dbp.commit_changes(vec![(0u8, Operation::DereferenceTree(k1))]));
        let _ = ptx.send(r);
    });
    let mut pres = prx.recv_timeout(std::time::Duration::from_millis(1500)).ok();
    gate.open();
    if pres.is_none() {
        pres = prx.recv_timeout(std::time::Duration::from_secs(20)).ok();
    }
    match pres {
        Some(Ok(Ok(()))) => {},
        Some(Ok(Err(e))) => viol.push(format!("dereference of tree 1 failed: {e}")),
        Some(Err(p)) => viol.push(format!("dereference of tree 1 panicked: {p}")),
        None => viol.push("the pruner's commit did not return".into()),
    }
    match writer.join() {
        Ok(Ok(Ok(()))) => {},
        Ok(Ok(Err(e))) => viol.push(format!("commit of tree 2 failed: {e}")),
        Ok(Err(p)) => viol.push(format!("commit of tree 2 panicked: {p}")),
        Err(_) => viol.push("writer thread died".into()),
    }
    parity_db::verif::set_sink(None);
    // the writer releases its reader lock; the log worker runs
    h.unlock();
    for _ in 0..6 {
        match catch(|| db.process_commits()) {
            Ok(Ok(_)) => {},
            Ok(Err(e)) => viol.push(format!("process_commits: {e}")),
            Err(p) => viol.push(format!("process_commits panicked: {p}")),
        }
    }
    // tree 2 is live: root, the reused node 1, its child 2 and the new leaf 3 must read back
    let r = with_reader(&db, &u.tkey(2), |src| -> Result<(), String> {
        let s = src.ok_or("tree 2 (committed while the writer held the reader lock of tree 1) is absent")?;
        let (d, ch) = s.root()?.ok_or("tree 2: root absent")?;
        if d != u.root_data(2) || ch.len() != 2 || ch[0] != addr {
            return Err("tree 2: root differs from what was supplied".into())
        }
        let (d1, ch1) = s.node(addr)?.ok_or("tree 2: the node reused from the locked tree is not readable (freed by the dereference that was queued in between)")?;
        if d1 != u.node_data(1) || ch1.len() != 1 {
            return Err("tree 2: the node reused from the locked tree no longer holds its data".into())
        }
        let (dd, _) = s.node(ch1[0])?.ok_or("tree 2: the child of the reused node is not readable")?;
        if dd != u.node_data(2) {
            return Err("tree 2: the child of the reused node no longer holds its data".into())
        }
        Ok(())
    });
    match r {
        Ok(Ok(())) => {},
        Ok(Err(e)) | Err(e) => viol.push(e),
    }
    match db.get_num_column_value_entries(0) {
        Ok(n) if n != 4 => viol.push(format!("column holds {n} entries, 4 expected (tree 2: root, reused node, its child, new leaf)")),
        _ => {},
    }
    let _ = std::fs::remove_dir_all(&dir);
    (reached, viol)
}

pub fn cmd_scenario(args: &HashMap<String, String>) -> i32 {
    use crate::workers::Gate;
    use std::time::Duration;
    let which = args.get("which").map(|s| s.as_str()).unwrap_or("F18");
    if which == "QUIET" {
        // C15: a dereference that the log worker has to postpone (reader lock held) and that is ALONE in the queue must
        // still be written to the log once the reader is gone, without any further commit (real worker threads)
        let v = Variant::parse(args.get("variant").map(|s| s.as_str()).unwrap_or(""));
        let u = Univ { seed: 9, v };
        let root = scratch_root();
        let dir = fresh_dir(&root, "mtq");
        let mut viol: Vec<String> = Vec::new();
        let mut reached = false;
        {
            let db = Arc::new(Db::open_or_create(&mt_options(&dir, &u.v, true)).expect("open"));
            let leaf = |id: u64| NodeRef::New(NewNode { data: u.node_data(id), children: vec![] });
            db.commit_changes(vec![(0u8, Operation::InsertTree(u.tkey(1), NewNode { data: u.root_data(1), children: vec![leaf(1), leaf(2)] }))]).expect("commit T1");
            let wait_empty = |ms: u64| {
                let t0 = std::time::Instant::now();
                // (a commit being examined by the log worker is out of the queue for an instant: three polls in a row)
                let mut zeros = 0;
                while t0.elapsed().as_millis() < ms as u128 {
                    zeros = if db.verif_pipeline_sizes().0 == 0 { zeros + 1 } else { 0 };
                    if zeros >= 3 {
                        return true
                    }
                    std::thread::sleep(Duration::from_millis(5));
                }
                false
            };
            if !wait_empty(10_000) {
                viol.push("the insertion of the tree was not logged within 10 s".into());
            }
            for round in 0..3 {
                if let Some(h) = ReaderHandle::lock(db.clone(), u.tkey(1)) {
                    reached = true;
                    if u.v.rc || round == 0 {
                        // (counted roots: one more reference each round so that the tree stays)
                        if round > 0 {
                            db.commit_changes(vec![(0u8, Operation::ReferenceTree(u.tkey(1)))]).expect("ref");
                            let _ = wait_empty(5_000);
                        }
                    }
                    db.commit_changes(vec![(0u8, Operation::DereferenceTree(u.tkey(1)))]).expect("commit deref");
                    // the log worker meets the commit while the lock is held, several times
                    std::thread::sleep(Duration::from_millis(150 + 100 * round as u64));
                    h.unlock();
                    if !wait_empty(10_000) {
                        viol.push(format!("round {round}: a DereferenceTree postponed while a reader held the lock was still queued 10 s after the reader released it (no further commit was made; queue length {})", db.verif_pipeline_sizes().0));
                        break
                    }
                }
                if !u.v.rc {
                    // the tree is gone: insert it again for the next round
                    db.commit_changes(vec![(0u8, Operation::InsertTree(u.tkey(1), NewNode { data: u.root_data(1), children: vec![leaf(3 + round as u64)] }))]).expect("commit T1 again");
                    let _ = wait_empty(10_000);
                }
            }
            match Arc::try_unwrap(db) {
                Ok(d) => drop(d),
                Err(_) => viol.push("harness: db still shared".into()),
            }
        }
        let _ = std::fs::remove_dir_all(&root);
        println!("{}", json!({"which": which, "reached": reached, "violations": viol}));
        use std::io::Write;
        let _ = std::io::stdout().flush();
        std::process::exit(0);
    }
    if which == "F20" {
        let v = Variant::parse(args.get("variant").map(|s| s.as_str()).unwrap_or(""));
        let u = Univ { seed: 5, v };
        let (reached, viol) = scenario_f20(&u);
        println!("{}", json!({"which": which, "reached": reached, "violations": viol}));
        use std::io::Write;
        let _ = std::io::stdout().flush();
        std::process::exit(0);
    }
    let v = Variant::parse(args.get("variant").map(|s| s.as_str()).unwrap_or(""));
    let u = Univ { seed: 5, v };
    let root = scratch_root();
    let dir = fresh_dir(&root, "mtsc");
    let db = Arc::new(Db::open_or_create(&mt_options(&dir, &u.v, false)).expect("open"));
    let mut viol: Vec<String> = Vec::new();
    let leaf = |id: u64| NodeRef::New(NewNode { data: u.node_data(id), children: vec![] });
    // T1 = root -> node 1 -> node 2
    db.commit_changes(vec![(0u8, Operation::InsertTree(u.tkey(1), NewNode { data: u.root_data(1),
        children: vec![NodeRef::New(NewNode { data: u.node_data(1), children: vec![leaf(2)] })] }))]).expect("commit T1");
    db.process_commits().expect("process");
    let entries_before = db.get_num_column_value_entries(0).unwrap_or(0);
    db.commit_changes(vec![(0u8, Operation::DereferenceTree(u.tkey(1)))]).expect("commit deref");
    // the log worker's step, held after its deferral check (BeginRecord is emitted right after it)
    let gate = Gate::new();
    let g2 = gate.clone();
    let me = std::thread::current().id();
    parity_db::verif::set_sink(Some(Arc::new(move |n: &'static str, _a: &[u64]| {
        if n == "BeginRecord" && std::thread::current().id() != me {
            g2.pass();
        }
    })));
    let dbw = db.clone();
    let worker = std::thread::spawn(move || catch(|| dbw.process_commits()));
    let reached = gate.wait_reached(20);
    // reader: lock T1 (bounded wait: with the write lock held by the log worker this blocks)
    let (ltx, lrx) = channel();
    let dbr = db.clone();
    let k1 = u.tkey(1);
    std::thread::spawn(move || {
        let h = ReaderHandle::lock(dbr, k1);
        let _ = ltx.send(h);
    });
    let mut lock_blocked = false;
    let handle = match lrx.recv_timeout(Duration::from_millis(1500)) {
        Ok(h) => h,
        Err(_) => {
            lock_blocked = true;
            None
        },
    };
    let mut reused: Option<u64> = None;
    if let Some(h) = &handle {
        // under the lock: read the tree, commit T2 reusing node 1
        match h.root() {
            Ok(Some((_, ch))) if ch.len() == 1 => {
                reused = Some(ch[0]);
                if let Err(e) = db.commit_changes(vec![(0u8, Operation::InsertTree(u.tkey(2), NewNode { data: u.root_data(2),
                    children: vec![NodeRef::Existing(ch[0]), leaf(3)] }))]) {
                    viol.push(format!("commit of the tree reusing a node of the locked tree failed: {e}"));
                }
            },
            Ok(Some((_, ch))) => viol.push(format!("locked reader sees {} children of the root, 1 supplied", ch.len())),
            Ok(None) => {}, // the tree was already gone when the lock was obtained: nothing to reuse
            Err(e) => viol.push(format!("locked reader: get_root error {e}")),
        }
    }
    if let Some(h) = handle {
        h.unlock();
    }
    gate.open();
    match worker.join() {
        Ok(Ok(Ok(_))) => {},
        Ok(Ok(Err(e))) => viol.push(format!("process_commits (dereference): {e}")),
        Ok(Err(p)) => viol.push(format!("process_commits (dereference) panicked: {p}")),
        Err(_) => viol.push("worker thread panicked".into()),
    }
    parity_db::verif::set_sink(None);
    if lock_blocked {
        // the reader obtains the lock only after the walk: it must then find no tree
        if let Ok(Some(h)) = lrx.recv_timeout(Duration::from_secs(20)) {
            match h.root() {
                Ok(None) => {},
                Ok(Some(_)) => viol.push("reader locked after the dereference walk still sees the root".into()),
                Err(e) => viol.push(format!("reader: {e}")),
            }
            h.unlock();
        }
    }
    // the rest of the queue
    for _ in 0..4 {
        match catch(|| db.process_commits()) {
            Ok(Ok(_)) => {},
            Ok(Err(e)) => viol.push(format!("process_commits: {e}")),
            Err(p) => viol.push(format!("process_commits panicked: {p}")),
        }
    }
    if let Some(addr) = reused {
        // T2 is live: root, the reused node 1 and its child 2, the new leaf 3 must read back
        let r = with_reader(&db, &u.tkey(2), |src| -> Result<(), String> {
            let s = src.ok_or("tree 2 (committed while the reader lock on tree 1 was held) is absent")?;
            let (d, ch) = s.root()?.ok_or("tree 2: root absent")?;
            if d != u.root_data(2) || ch.len() != 2 || ch[0] != addr {
                return Err("tree 2: root differs from what was supplied".into())
            }
            let (d1, ch1) = s.node(addr)?.ok_or("tree 2: the node reused from the locked tree is not readable (it was freed by the dereference)")?;
            if d1 != u.node_data(1) || ch1.len() != 1 {
                return Err("tree 2: the node reused from the locked tree no longer holds its data".into())
            }
            let (d2, _) = s.node(ch1[0])?.ok_or("tree 2: the child of the reused node is not readable (freed by the dereference)")?;
            if d2 != u.node_data(2) {
                return Err("tree 2: the child of the reused node no longer holds its data".into())
            }
            Ok(())
        });
        match r {
            Ok(Ok(())) => {},
            Ok(Err(e)) | Err(e) => viol.push(e),
        }
        match db.get_num_column_value_entries(0) {
            // T1's root gone; T2's root + node 1 + node 2 + leaf 3
            Ok(n) if n != 4 => viol.push(format!("column holds {n} entries, 4 expected (tree 2: root, reused node, its child, new leaf); before: {entries_before}")),
            _ => {},
        }
    }
    println!("{}", json!({"which": which, "reached": reached, "lock_blocked": lock_blocked, "reused": reused.is_some(), "violations": viol}));
    use std::io::Write;
    let _ = std::io::stdout().flush();
    let _ = std::fs::remove_dir_all(&dir);
    // threads of a wedged scenario must not keep the process alive
    std::process::exit(0);
}

// ---------------------------------------------------------------------------
// implementation -> specification: random driver whose recorded history TLC validates
// against spec/TraceMultiTree.tla

struct Mirror {
    /// client view after every accepted commit: key -> (count, root kids)
    ideal: HashMap<u64, (u64, Vec<u64>)>,
    /// after every processed commit
    applied: HashMap<u64, (u64, Vec<u64>)>,
    node_kids: HashMap<u64, Vec<u64>>,
    /// queued commits: (model cid, op)
    queue: Vec<(u64, MOp)>,
    locked: HashMap<u64, Vec<u64>>,
    next_id: u64,
    next_cid: u64,
}

#[derive(Clone)]
enum MOp {
    Ins(u64, Vec<u64>),
    Deref(u64),
    Ref(u64),
    None,
}

impl Mirror {
    fn reach(&self, kids: &[u64], out: &mut HashSet<u64>) {
        for k in kids {
            if out.insert(*k) {
                if let Some(ks) = self.node_kids.get(k) {
                    let ks = ks.clone();
                    self.reach(&ks, out);
                }
            }
        }
    }
    /// the root a reader (or a dereference) finds under `k`: commit overlay (latest queued insertion)
    /// before the stored one
    fn visible_root(&self, k: u64) -> Option<Vec<u64>> {
        for (_c, op) in self.queue.iter().rev() {
            if let MOp::Ins(kk, kids) = op {
                if *kk == k {
                    return Some(kids.clone())
                }
            }
        }
        self.applied.get(&k).map(|e| e.1.clone())
    }
    fn referable(&self) -> Vec<u64> {
        let mut s = HashSet::new();
        for (_k, (_rc, kids)) in self.ideal.iter() {
            self.reach(kids, &mut s);
        }
        for (_k, kids) in self.locked.iter() {
            self.reach(kids, &mut s);
        }
        let mut v: Vec<u64> = s.into_iter().collect();
        v.sort();
        v
    }
    fn apply(map: &mut HashMap<u64, (u64, Vec<u64>)>, op: &MOp, rc_roots: bool) {
        match op {
            MOp::Ins(k, kids) => {
                if let Some(e) = map.get_mut(k) {
                    if rc_roots {
                        e.0 += 1;
                    } else {
                        *e = (1, kids.clone());
                    }
                } else {
                    map.insert(*k, (1, kids.clone()));
                }
            },
            MOp::Deref(k) => {
                let gone = match map.get_mut(k) {
                    Some(e) if e.0 > 1 => {
                        e.0 -= 1;
                        false
                    },
                    Some(_) => true,
                    None => false,
                };
                if gone {
                    map.remove(k);
                }
            },
            MOp::Ref(k) =>
                if let Some(e) = map.get_mut(k) {
                    e.0 += 1;
                },
            MOp::None => {},
        }
    }
}

fn rand_shape(rng: &mut rand::rngs::SmallRng, refs: &[u64], depth: u32, next: &mut u64, node_kids: &mut HashMap<u64, Vec<u64>>, budget: &mut i32) -> (J, Vec<u64>) {
    use rand::Rng;
    let n = if depth == 0 { rng.gen_range(0..5) } else { rng.gen_range(0..3) };
    let mut sh = Vec::new();
    let mut ids = Vec::new();
    for _ in 0..n {
        if *budget <= 0 {
            break
        }
        if !refs.is_empty() && rng.gen_range(0..100) < 40 {
            let r = refs[rng.gen_range(0..refs.len())];
            sh.push(json!({"new": false, "ref": r}));
            ids.push(r);
        } else {
            let id = *next;
            *next += 1;
            *budget -= 1;
            let (sub, sub_ids) = if depth < 3 && rng.gen_range(0..100) < 45 {
                rand_shape(rng, refs, depth + 1, next, node_kids, budget)
            } else {
                (json!([]), vec![])
            };
            node_kids.insert(id, sub_ids);
            sh.push(json!({"new": true, "kids": sub}));
            ids.push(id);
        }
    }
    (J::Array(sh), ids)
}

/// `pdbh mtree-record --out F --steps N --seed S --variant V [--nt N] [--maxids N] [--crash PCT]`
pub fn cmd_record(args: &HashMap<String, String>) -> i32 {
    use rand::{Rng, SeedableRng};
    use std::io::Write;
    let steps: usize = args.get("steps").and_then(|s| s.parse().ok()).unwrap_or(300);
    let seed: u64 = args.get("seed").and_then(|s| s.parse().ok()).unwrap_or(1);
    let nt: u64 = args.get("nt").and_then(|s| s.parse().ok()).unwrap_or(5);
    let nx: u64 = 2;
    let nv: u64 = 3;
    let maxids: u64 = args.get("maxids").and_then(|s| s.parse().ok()).unwrap_or(300);
    let crash_pct: u32 = args.get("crash").and_then(|s| s.parse().ok()).unwrap_or(0);
    let v = Variant::parse(args.get("variant").map(|s| s.as_str()).unwrap_or(""));
    let rc_roots = v.rc;
    let u = Univ { seed: mix(seed, 99), v: Variant { pads: false, ..v.clone() } };
    let root = scratch_root();
    let dir = fresh_dir(&root, "mtrec");
    let mut run = Run { u: &u, dir: dir.clone(), db: None, bind: Binding::default(), readers: HashMap::new(), kept: HashMap::new(), cid_off: 0, last_cid: 0, closing: false, close_log: Default::default(), crashes: 0,
                        events: Arc::new(Mutex::new(Vec::new())), gate: Arc::new(Mutex::new(None)), worker: None };
    run.install_sink();
    let mut rng = rand::rngs::SmallRng::seed_from_u64(seed ^ 0x51ed);
    let mut m = Mirror { ideal: HashMap::new(), applied: HashMap::new(), node_kids: HashMap::new(), queue: Vec::new(), locked: HashMap::new(), next_id: 1, next_cid: 1 };
    let mut out: Vec<J> = Vec::new();
    let mut problems: Vec<String> = Vec::new();
    // root data decoding: every commit id that inserted a root
    let mut root_cids: Vec<(u64, u64)> = Vec::new(); // (key, commit id)
    if let Err(e) = run.open() {
        println!("{}", json!({"events": 0, "problems": [e]}));
        return 1
    }
    let mut ncrash = 0;
    let mut nrestart = 0;
    let mut ndefer = 0;
    let mut nshared = 0;
    let project = |run: &mut Run, m: &Mirror, root_cids: &Vec<(u64, u64)>| -> Result<J, String> {
        let db = run.db.clone().unwrap();
        let mut vis = Vec::new();
        let mut nodes: Vec<J> = Vec::new();
        let mut seen: HashSet<u64> = HashSet::new();
        for k in 1..=nt {
            let key = u.tkey(k);
            let bind = &run.bind;
            let r = with_reader(&db, &key, |src| -> Result<J, String> {
                let s = match src {
                    None => return Ok(json!({"live": false, "data": 0, "kids": []})),
                    Some(s) => s,
                };
                let (data, ch) = match s.root()? {
                    None => return Ok(json!({"live": false, "data": 0, "kids": []})),
                    Some(x) => x,
                };
                // (root data of different commits can coincide when it is very short: the latest insertion under
                // THIS key that supplied these bytes)
                let cid = root_cids.iter().rev().find(|c| c.0 == k && u.root_data(c.1) == data).map(|c| c.1 as i64).unwrap_or(-1);
                let mut kids = Vec::new();
                let mut stack: Vec<u64> = Vec::new();
                for a in ch.iter() {
                    let id = bind.addr2id.get(a).copied().unwrap_or(0);
                    kids.push(id);
                    stack.push(*a);
                }
                while let Some(a) = stack.pop() {
                    let id = bind.addr2id.get(&a).copied().unwrap_or(0);
                    if id == 0 || !seen.insert(id) {
                        continue
                    }
                    match s.node(a)? {
                        None => nodes.push(json!({"id": id, "kids": [-1]})),
                        Some((d, c)) => {
                            let ok = d == u.node_data(id);
                            let ks: Vec<i64> = c.iter().map(|x| bind.addr2id.get(x).copied().unwrap_or(0) as i64).collect();
                            nodes.push(json!({"id": if ok { id as i64 } else { -(id as i64) }, "kids": ks}));
                            stack.extend(c.iter());
                        },
                    }
                }
                Ok(json!({"live": true, "data": cid, "kids": kids}))
            })?;
            vis.push(r?);
        }
        let mut xs = Vec::new();
        for x in 1..=nx {
            let got = db.get(1, &u.xkey(x)).map_err(|e| e.to_string())?;
            let v = match got {
                None => 0,
                Some(b) => (1..=nv).find(|v| u.xval(*v) == b).map(|v| v as i64).unwrap_or(-1),
            };
            xs.push(v);
        }
        let entries = db.get_num_column_value_entries(0).map(|n| n as i64).unwrap_or(-1);
        let _ = m;
        Ok(json!({"e": "Obs", "vis": vis, "nodes": nodes, "x": xs, "entries": entries}))
    };
    let mut i = 0;
    while i < steps && problems.is_empty() {
        i += 1;
        let r = rng.gen_range(0..100u32);
        let step_fn = || -> Result<(), String> {
            if r < 34 {
                // a transaction: tree operation (+ sometimes a plain write)
                let pending_deref: HashSet<u64> = m.queue.iter().filter_map(|(_, o)| if let MOp::Deref(k) = o { Some(*k) } else { None }).collect();
                let pending_x = m.queue.iter().any(|(_, o)| matches!(o, MOp::Deref(_)));
                let free_keys: Vec<u64> = (1..=nt).filter(|k| !m.ideal.contains_key(k) && !m.locked.contains_key(k) && !pending_deref.contains(k) && !run.kept.contains_key(k)).collect();
                // (no second tree operation on a key whose dereference is still queued: a deferral could
                // reorder them, the known finding F3)
                let live_keys: Vec<u64> = {
                    let mut v: Vec<u64> = m.ideal.keys().copied().filter(|k| !pending_deref.contains(k)).collect();
                    v.sort();
                    v
                };
                let what = rng.gen_range(0..100u32);
                let cid = m.next_cid;
                let (tree, sh, op): (J, J, MOp) = if !free_keys.is_empty() && m.next_id + 12 < maxids && (what < 50 || live_keys.is_empty()) {
                    let k = free_keys[rng.gen_range(0..free_keys.len())];
                    let refs = if u.v.ao { m.referable() } else { m.referable() };
                    let first = m.next_id;
                    let mut budget = 10;
                    let (sh, kids) = rand_shape(&mut rng, &refs, 0, &mut m.next_id, &mut m.node_kids, &mut budget);
                    if sh.to_string().contains("\"ref\"") {
                        nshared += 1;
                    }
                    let new: Vec<J> = if m.next_id > first { vec![json!({"id": first})] } else { vec![] };
                    (json!({"t": "ins", "k": k, "new": new}), sh, MOp::Ins(k, kids))
                } else if !live_keys.is_empty() && what < 85 && !u.v.ao {
                    let k = live_keys[rng.gen_range(0..live_keys.len())];
                    (json!({"t": "deref", "k": k}), json!([]), MOp::Deref(k))
                } else if !live_keys.is_empty() && rc_roots && !u.v.ao && what < 93 {
                    let k = live_keys[rng.gen_range(0..live_keys.len())];
                    (json!({"t": "ref", "k": k}), json!([]), MOp::Ref(k))
                } else {
                    (json!({"t": "none"}), json!([]), MOp::None)
                };
                // a plain write rides along unless a queued dereference could be deferred past it (F3)
                let with_set = !pending_x && !matches!(op, MOp::Deref(_)) && (matches!(op, MOp::None) || rng.gen_range(0..100) < 30);
                let set = if with_set { json!({"x": rng.gen_range(1..=nx), "v": rng.gen_range(1..=nv)}) } else { json!({"x": 0, "v": 0}) };
                if matches!(op, MOp::None) && !with_set {
                    return Ok(())
                }
                let st = json!({"a": "Commit", "tx": {"cid": cid, "tree": tree, "set": set}, "sh": sh});
                run.step(&st)?;
                m.next_cid += 1;
                if let MOp::Ins(k, _) = &op {
                    root_cids.push((*k, cid));
                }
                Mirror::apply(&mut m.ideal, &op, rc_roots);
                m.queue.push((cid, op.clone()));
                let mut tj = st["tx"]["tree"].clone();
                tj["sh"] = st["sh"].clone();
                out.push(json!({"e": "Commit", "cid": cid, "tree": tj, "set": st["tx"]["set"]}));
                // learn the addresses of the new nodes: the new tree must read back as supplied
                if let MOp::Ins(k, kids) = &op {
                    let n = m.next_id as usize;
                    let kids_arr: Vec<J> = (1..n as u64).map(|id| json!(m.node_kids.get(&id).cloned().unwrap_or_default())).collect();
                    let rc_arr: Vec<J> = (1..n).map(|_| json!(1)).collect();
                    let want = json!({"rc": 1, "data": cid, "kids": kids});
                    let db = run.db.clone().unwrap();
                    let bind = &mut run.bind;
                    let mut seen = HashSet::new();
                    let r = with_reader(&db, &u.tkey(*k), |src| match src {
                        None => Err(format!("tree {k}: absent right after its insertion was accepted")),
                        Some(s) => compare_tree(&u, s, &want, &J::Array(kids_arr.clone()), &J::Array(rc_arr.clone()), bind, &mut seen, &format!("tree {k} (just inserted)")),
                    })?;
                    r?;
                }
                Ok(())
            } else if r < 56 {
                // the log worker's step
                if m.queue.is_empty() {
                    return Ok(())
                }
                let db = run.db.clone().unwrap();
                let (r, ev) = run.with_events(|| catch(|| db.process_commits()));
                r.map_err(|p| format!("process_commits panicked: {p}"))?.map_err(|e| format!("process_commits: {e}"))?;
                let pops: Vec<u64> = ev.iter().filter(|e| e.0 == "Pop").map(|e| e.1[0]).collect();
                let defers: Vec<Vec<u64>> = ev.iter().filter(|e| e.0 == "Defer").map(|e| e.1.clone()).collect();
                if pops.len() != 1 {
                    return Err(format!("process_commits took {} commits", pops.len()))
                }
                let cid = pops[0] + run.cid_off;
                let (qcid, op) = m.queue.remove(0);
                if qcid != cid {
                    return Err(format!("log worker took commit {cid}, the oldest queued commit is {qcid}"))
                }
                if let Some(d) = defers.first() {
                    if d[1] == d[0] {
                        m.queue.insert(0, (qcid, op));
                        out.push(json!({"e": "Spin", "cid": cid}));
                    } else {
                        let ncid = d[1] + run.cid_off;
                        run.last_cid = run.last_cid.max(ncid);
                        m.next_cid = ncid + 1;
                        m.queue.push((ncid, op));
                        ndefer += 1;
                        out.push(json!({"e": "Defer", "cid": cid, "ncid": ncid}));
                    }
                } else {
                    Mirror::apply(&mut m.applied, &op, rc_roots);
                    out.push(json!({"e": "Process", "cid": cid}));
                }
                Ok(())
            } else if r < 70 {
                let w = ["flush", "enact", "enact", "clean"][rng.gen_range(0..4)];
                run.step(&json!({"a": "Pipe", "w": w}))?;
                out.push(json!({"e": "Pipe"}));
                Ok(())
            } else if r < 80 {
                // a reader locks a visible tree, or unlocks
                let lockable: Vec<u64> = (1..=nt).filter(|k| !m.locked.contains_key(k)).collect();
                if !m.locked.is_empty() && (rng.gen_range(0..100) < 50 || lockable.is_empty()) {
                    let ks: Vec<u64> = { let mut v: Vec<u64> = m.locked.keys().copied().collect(); v.sort(); v };
                    let k = ks[rng.gen_range(0..ks.len())];
                    run.step(&json!({"a": "Unlock", "k": k}))?;
                    m.locked.remove(&k);
                    out.push(json!({"e": "Unlock", "k": k}));
                } else if !lockable.is_empty() {
                    let k = lockable[rng.gen_range(0..lockable.len())];
                    // only trees whose root the client can see (overlay or applied)
                    let kids = match m.visible_root(k) {
                        Some(kids) => kids,
                        None => return Ok(()),
                    };
                    run.step(&json!({"a": "Lock", "k": k}))?;
                    m.locked.insert(k, kids);
                    out.push(json!({"e": "Lock", "k": k}));
                }
                Ok(())
            } else if r < 84 {
                if m.queue.is_empty() && m.locked.is_empty() {
                    run.step(&json!({"a": "Restart"}))?;
                    nrestart += 1;
                    out.push(json!({"e": "Restart"}));
                }
                Ok(())
            } else if r < 84 + crash_pct.min(8) {
                if m.locked.is_empty() {
                    run.step(&json!({"a": "Crash"}))?;
                    ncrash += 1;
                    m.queue.clear();
                    m.ideal = m.applied.clone();
                    out.push(json!({"e": "Crash"}));
                }
                Ok(())
            } else if r < 96 {
                let free: Vec<u64> = (1..=nt).filter(|k| !m.ideal.contains_key(k) && m.visible_root(*k).is_none() && !m.locked.contains_key(k)).collect();
                if let Some(k) = free.first() {
                    let why = ["wide", "deref_missing", "plain_op", "ins_then_bad", "ins_then_wide"][rng.gen_range(0..5)];
                    if !(u.v.ao && why == "deref_missing") {
                        run.step(&json!({"a": "Reject", "why": why, "k": k, "n": 256 + rng.gen_range(0..60)}))?;
                        out.push(json!({"e": "Reject"}));
                    }
                }
                Ok(())
            } else {
                // drained: stored node counts and slot census
                if m.queue.is_empty() && m.locked.is_empty() && !u.v.ao {
                    run.drain()?;
                    let d = run.db().verif_dump(0).map_err(|e| format!("dump: {e}"))?;
                    let mut counts: HashMap<u64, u64> = HashMap::new();
                    for (_bits, entries) in d.ref_counts.iter() {
                        for (a, c) in entries {
                            counts.entry(*a).or_insert(*c);
                        }
                    }
                    let mut rcj = Vec::new();
                    let mut ids: Vec<(&u64, &u64)> = run.bind.id2addr.iter().collect();
                    ids.sort();
                    for (id, a) in ids {
                        rcj.push(json!({"id": id, "count": counts.get(a).copied().unwrap_or(1)}));
                    }
                    let stray = counts.keys().filter(|a| !run.bind.addr2id.contains_key(a)).count();
                    // nodes the model has freed are still bound here: the census is done with the live ones only
                    let orphans = if u.has_multipart() { -1 } else { run.census()? as i64 };
                    out.push(json!({"e": "Counts", "rc": rcj, "stray": stray, "orphans": orphans}));
                }
                Ok(())
            }
        };
        // a panic of the code under test is data
        let res = match catch(step_fn) {
            Ok(r) => r,
            Err(p) => Err(format!("panic: {p}")),
        };
        if let Err(e) = res {
            problems.push(e);
            break
        }
        // nodes that are no longer reachable from a stored root or from a queued insertion have been
        // freed (their addresses may be handed out again): forget their addresses
        {
            let mut live: HashSet<u64> = HashSet::new();
            for (_k, (_rc, kids)) in m.applied.iter() {
                m.reach(kids, &mut live);
            }
            for (_c, op) in m.queue.iter() {
                if let MOp::Ins(_k, kids) = op {
                    m.reach(kids, &mut live);
                }
            }
            let bound: Vec<u64> = run.bind.id2addr.keys().copied().collect();
            for id in bound {
                if !live.contains(&id) {
                    run.bind.forget(id);
                }
            }
        }
        match catch(|| project(&mut run, &m, &root_cids)) {
            Ok(Ok(o)) => {
                out.push(o);
            },
            Ok(Err(e)) => problems.push(format!("read: {e}")),
            Err(p) => problems.push(format!("panic in a read: {p}")),
        }
    }
    for (_, h) in run.readers.drain().chain(run.kept.drain()) {
        h.unlock();
    }
    parity_db::verif::set_sink(None);
    let dbx = run.db.take();
    let _ = catch(move || drop(dbx));
    let _ = std::fs::remove_dir_all(&run.dir);
    let _ = std::fs::remove_dir_all(&dir);
    let mut f = std::io::BufWriter::new(std::fs::File::create(&args["out"]).unwrap());
    for e in &out {
        writeln!(f, "{e}").unwrap();
    }
    println!("{}", json!({"events": out.len(), "problems": problems, "crashes": ncrash, "restarts": nrestart, "defers": ndefer,
                          "trees_with_shared_nodes": nshared, "ids": m.next_id - 1, "commits": m.next_cid - 1, "nt": nt}));
    0
}

// ---------------------------------------------------------------------------
// free-running threads (real background workers): writer, pruner, readers; the recorded history is
// validated by TLC against spec/TraceMultiTreeLive.tla

struct LiveShared {
    events: Mutex<Vec<J>>,
    /// client view and queue, maintained inside the hook sink (under the locks parity-db holds there)
    mirror: Mutex<Mirror>,
    inflight: Mutex<Option<(u64, MOp)>>,
    bind: Mutex<Binding>,
    /// keys some harness thread is working with (at most one reader lock per tree at a time)
    leases: Mutex<HashSet<u64>>,
    stop: std::sync::atomic::AtomicBool,
    problems: Mutex<Vec<String>>,
}

thread_local! {
    static LIVE_TX: std::cell::RefCell<Option<(J, MOp, u64)>> = std::cell::RefCell::new(None);
}

impl LiveShared {
    fn push(&self, e: J) {
        self.events.lock().unwrap().push(e);
    }
    fn lease(&self, k: u64) -> bool {
        self.leases.lock().unwrap().insert(k)
    }
    fn release(&self, k: u64) {
        self.leases.lock().unwrap().remove(&k);
    }
}

/// lock tree k on the calling thread (LockReq / LockAck / Read / Unlock events); `f` runs under the lock
/// with the root children (addresses) and may commit.  Returns false when the tree was not there.
fn live_locked<B: FnOnce(&dyn Source, &[u64]), F: FnOnce(&dyn Source, &[u64])>(sh: &LiveShared, db: &Db, u: &Univ, k: u64, root_cids: &Mutex<Vec<(u64, u64, u64)>>, before: B, f: F) -> Result<bool, String> {
    sh.push(json!({"e": "LockReq", "k": k, "t": tid()}));
    let tree = db.get_tree(0, &u.tkey(k)).map_err(|e| e.to_string())?;
    let tree = match tree {
        None => {
            sh.push(json!({"e": "LockAck", "k": k, "live": false, "t": tid()}));
            return Ok(false)
        },
        Some(t) => t,
    };
    let guard = tree.read();
    let src = Local(&**guard);
    let (data, ch) = match src.root()? {
        None => {
            // the lock is held, but on a tree that is gone: nothing to read; for the model this
            // reader never locked anything
            drop(guard);
            sh.push(json!({"e": "LockAck", "k": k, "live": false, "t": tid()}));
            return Ok(false)
        },
        Some(x) => x,
    };
    // (the writer learns the addresses of its new nodes here, before anything is reported in ids)
    before(&src, &ch);
    let ids = |addrs: &[u64]| -> Vec<i64> {
        let b = sh.bind.lock().unwrap();
        addrs.iter().map(|a| b.addr2id.get(a).copied().unwrap_or(0) as i64).collect()
    };
    let cid = root_cids.lock().unwrap().iter().rev().find(|c| c.0 == k && u.root_data(c.2) == data).map(|c| c.1 as i64).unwrap_or(-1);
    sh.push(json!({"e": "LockAck", "k": k, "live": true, "data": cid, "kids": ids(&ch), "t": tid()}));
    // read the whole tree
    let mut nodes: Vec<J> = Vec::new();
    let mut seen: HashSet<u64> = HashSet::new();
    let mut stack: Vec<u64> = ch.clone();
    while let Some(a) = stack.pop() {
        if !seen.insert(a) {
            continue
        }
        let id = sh.bind.lock().unwrap().addr2id.get(&a).copied().unwrap_or(0);
        match src.node(a)? {
            None => nodes.push(json!({"id": -(id as i64) - 1000000, "kids": []})),
            Some((d, c)) => {
                let ok = id != 0 && d == u.node_data(id);
                nodes.push(json!({"id": if ok { id as i64 } else { -(id as i64) }, "kids": ids(&c)}));
                stack.extend(c.iter());
            },
        }
    }
    sh.push(json!({"e": "Read", "k": k, "data": cid, "kids": ids(&ch), "nodes": nodes, "t": tid()}));
    f(&src, &ch);
    // the lock is really released somewhere between these two events
    sh.push(json!({"e": "UnlockReq", "k": k, "t": tid()}));
    drop(guard);
    sh.push(json!({"e": "Unlock", "k": k, "t": tid()}));
    Ok(true)
}

/// `pdbh mtree-live --out F --trees N --seed S --variant V`
pub fn cmd_live(args: &HashMap<String, String>) -> i32 {
    use rand::{Rng, SeedableRng};
    use std::io::Write;
    use std::sync::atomic::Ordering;
    let ntrees: usize = args.get("trees").and_then(|s| s.parse().ok()).unwrap_or(60);
    let seed: u64 = args.get("seed").and_then(|s| s.parse().ok()).unwrap_or(1);
    let nt: u64 = args.get("nt").and_then(|s| s.parse().ok()).unwrap_or(6);
    let v = Variant::parse(args.get("variant").map(|s| s.as_str()).unwrap_or(""));
    let u = Arc::new(Univ { seed: mix(seed, 77), v: Variant { pads: false, big: false, ..v.clone() } });
    let root = scratch_root();
    let dir = fresh_dir(&root, "mtlive");
    let mut o = mt_options(&dir, &u.v, true);
    o.always_flush = false;
    let db = match Db::open_or_create(&o) {
        Ok(d) => Arc::new(d),
        Err(e) => {
            println!("{}", json!({"events": 0, "problems": [format!("open: {e}")]}));
            return 1
        },
    };
    let sh = Arc::new(LiveShared {
        events: Mutex::new(Vec::new()),
        mirror: Mutex::new(Mirror { ideal: HashMap::new(), applied: HashMap::new(), node_kids: HashMap::new(), queue: Vec::new(), locked: HashMap::new(), next_id: 1, next_cid: 1 }),
        inflight: Mutex::new(None),
        bind: Mutex::new(Binding::default()),
        leases: Mutex::new(HashSet::new()),
        stop: std::sync::atomic::AtomicBool::new(false),
        problems: Mutex::new(Vec::new()),
    });
    // (tree key, commit id, token the root data was derived from)
    let root_cids: Arc<Mutex<Vec<(u64, u64, u64)>>> = Arc::new(Mutex::new(Vec::new()));
    // the sink: hook events in emission order, mirror of the queue
    {
        let sh2 = sh.clone();
        let rc2 = root_cids.clone();
        parity_db::verif::set_sink(Some(Arc::new(move |n: &'static str, a: &[u64]| {
            match n {
                "CommitLin" => {
                    let cid = a[0];
                    let (tj, op, token) = LIVE_TX.with(|p| p.borrow_mut().take()).unwrap_or((json!({"t": "none"}), MOp::None, 0));
                    let mut m = sh2.mirror.lock().unwrap();
                    m.next_cid = cid + 1;
                    if let MOp::Ins(k, _) = &op {
                        rc2.lock().unwrap().push((*k, cid, token));
                    }
                    Mirror::apply(&mut m.ideal, &op, false);
                    m.queue.push((cid, op));
                    sh2.push(json!({"e": "Commit", "cid": cid, "tree": tj, "set": {"x": 0, "v": 0}, "t": tid()}));
                },
                "Pop" => {
                    let mut m = sh2.mirror.lock().unwrap();
                    if let Some(pos) = m.queue.iter().position(|q| q.0 == a[0]) {
                        let q = m.queue.remove(pos);
                        *sh2.inflight.lock().unwrap() = Some(q);
                    }
                    sh2.push(json!({"e": "Pop", "cid": a[0], "t": tid()}));
                },
                "BeginRecord" => {
                    sh2.push(json!({"e": "BeginRecord", "t": tid()}));
                },
                "Defer" => {
                    // the commit just popped goes back (under a new id unless it is alone in the queue)
                    sh2.push(json!({"e": "Defer", "cid": a[0], "ncid": a[1], "t": tid()}));
                    let q = sh2.inflight.lock().unwrap().take();
                    let mut m = sh2.mirror.lock().unwrap();
                    if let Some((_c, op)) = q {
                        if a[1] == a[0] {
                            m.queue.insert(0, (a[1], op));
                        } else {
                            m.queue.push((a[1], op));
                            m.next_cid = a[1] + 1;
                        }
                    }
                },
                "EndRecord" => {
                    let q = sh2.inflight.lock().unwrap().take();
                    if let Some((_c, op)) = q {
                        let mut m = sh2.mirror.lock().unwrap();
                        Mirror::apply(&mut m.applied, &op, false);
                    }
                    sh2.push(json!({"e": "EndRecord", "t": tid()}));
                },
                _ => {},
            }
        })));
    }
    let mut handles = Vec::new();
    // writer
    {
        let (sh, db, u, rc) = (sh.clone(), db.clone(), u.clone(), root_cids.clone());
        handles.push(std::thread::spawn(move || {
            let mut rng = rand::rngs::SmallRng::seed_from_u64(seed ^ 0xaa);
            let mut prev: Option<u64> = None;
            let mut made = 0;
            let mut spins = 0;
            while made < ntrees && !sh.stop.load(Ordering::SeqCst) && spins < 200000 {
                spins += 1;
                // a key that is free for the client, not being dereferenced and not in use by a reader
                let k = {
                    let m = sh.mirror.lock().unwrap();
                    let pend: HashSet<u64> = m.queue.iter().filter_map(|(_, o)| if let MOp::Deref(k) = o { Some(*k) } else { None }).collect();
                    let infl = sh.inflight.lock().unwrap().as_ref().and_then(|q| if let MOp::Deref(k) = &q.1 { Some(*k) } else { None });
                    (1..=nt).find(|k| !m.ideal.contains_key(k) && m.visible_root(*k).is_none() && !pend.contains(k) && infl != Some(*k))
                };
                let k = match k {
                    Some(k) if sh.lease(k) => k,
                    _ => {
                        std::thread::sleep(std::time::Duration::from_micros(200));
                        continue
                    },
                };
                // read the previous tree under its lock and reuse some of its nodes
                let mut committed: Option<Vec<u64>> = None;
                let mut commit = |refs: Vec<(u64, u64)>| {
                    // refs: (model id, address) of nodes of the locked tree
                    let mut next;
                    let first;
                    let mut nk: HashMap<u64, Vec<u64>> = HashMap::new();
                    {
                        let m = sh.mirror.lock().unwrap();
                        next = m.next_id;
                        first = next;
                    }
                    let ref_ids: Vec<u64> = refs.iter().map(|r| r.0).collect();
                    let mut budget = 8;
                    let (shape, kids) = rand_shape(&mut rng, &ref_ids, 0, &mut next, &mut nk, &mut budget);
                    {
                        let mut m = sh.mirror.lock().unwrap();
                        m.next_id = next;
                        for (id, ks) in nk.iter() {
                            m.node_kids.insert(*id, ks.clone());
                        }
                    }
                    let amap: HashMap<u64, u64> = refs.iter().cloned().collect();
                    let mut b = Binding::default();
                    for (id, a) in amap.iter() {
                        b.id2addr.insert(*id, *a);
                    }
                    let mut nx = first;
                    let children = match build_children(&u, &shape, &mut nx, &b) {
                        Ok(c) => c,
                        Err(e) => {
                            sh.problems.lock().unwrap().push(e);
                            return
                        },
                    };
                    let new: Vec<J> = if next > first { vec![json!({"id": first})] } else { vec![] };
                    let tj = json!({"t": "ins", "k": k, "new": new, "sh": shape});
                    // the commit id is known only inside the call (the pruner commits too): the root data is
                    // derived from a token of the writer, the sink records which commit id it got
                    let token = 1_000_000 + first * 16 + k;
                    LIVE_TX.with(|p| *p.borrow_mut() = Some((tj, MOp::Ins(k, kids.clone()), token)));
                    let r = db.commit_changes(vec![(0u8, Operation::InsertTree(u.tkey(k), NewNode { data: u.root_data(token), children }))]);
                    match r {
                        Ok(()) => committed = Some(kids),
                        Err(e) => sh.problems.lock().unwrap().push(format!("commit of a new tree failed: {e}")),
                    }
                };
                let mut did = false;
                if let Some(p) = prev {
                    if sh.lease(p) {
                        let r = live_locked(&sh, &db, &u, p, &rc, |_s, _c| {}, |src, ch| {
                            // every node of the locked tree may be reused
                            let mut refs = Vec::new();
                            let mut stack: Vec<u64> = ch.to_vec();
                            let mut seen = HashSet::new();
                            while let Some(a) = stack.pop() {
                                if !seen.insert(a) {
                                    continue
                                }
                                if let Some(id) = sh.bind.lock().unwrap().addr2id.get(&a).copied() {
                                    refs.push((id, a));
                                }
                                if let Ok(Some((_, c))) = src.node(a) {
                                    stack.extend(c.iter());
                                }
                            }
                            commit(refs);
                        });
                        sh.release(p);
                        match r {
                            Ok(true) => did = true,
                            Ok(false) => {},
                            Err(e) => sh.problems.lock().unwrap().push(e),
                        }
                    }
                }
                if !did {
                    commit(vec![]);
                }
                // learn the addresses of the new nodes (the key stays leased: no reader sees unbound nodes)
                let want_kids: Option<Vec<u64>> = committed;
                if let Some(kids) = want_kids {
                    // (no harness lock is held across a database call: the hook sink takes them inside
                    // parity-db's critical sections)
                    let node_kids: HashMap<u64, Vec<u64>> = sh.mirror.lock().unwrap().node_kids.clone();
                    let r = live_locked(&sh, &db, &u, k, &rc, |src, ch| {
                        let mut stack: Vec<(u64, u64)> = ch.iter().cloned().zip(kids.iter().cloned()).collect();
                        if ch.len() != kids.len() {
                            sh.problems.lock().unwrap().push(format!("tree {k}: {} root children read back, {} supplied", ch.len(), kids.len()));
                            return
                        }
                        while let Some((a, id)) = stack.pop() {
                            {
                                let mut b = sh.bind.lock().unwrap();
                                if b.id2addr.contains_key(&id) {
                                    continue
                                }
                                if let Some(old) = b.addr2id.insert(a, id) {
                                    b.id2addr.remove(&old);
                                }
                                b.id2addr.insert(id, a);
                            }
                            if let Ok(Some((_, c))) = src.node(a) {
                                let ks = node_kids.get(&id).cloned().unwrap_or_default();
                                if c.len() == ks.len() {
                                    stack.extend(c.iter().cloned().zip(ks.iter().cloned()));
                                } else {
                                    sh.problems.lock().unwrap().push(format!("node {id}: {} children read back, {} supplied", c.len(), ks.len()));
                                }
                            }
                        }
                    }, |_s, _c| {});
                    if let Err(e) = r {
                        sh.problems.lock().unwrap().push(e);
                    }
                }
                sh.release(k);
                prev = Some(k);
                made += 1;
            }
        }));
    }
    // pruner
    {
        let (sh, db, u) = (sh.clone(), db.clone(), u.clone());
        handles.push(std::thread::spawn(move || {
            let mut rng = rand::rngs::SmallRng::seed_from_u64(seed ^ 0xbb);
            while !sh.stop.load(Ordering::SeqCst) {
                std::thread::sleep(std::time::Duration::from_micros(300 + rng.gen_range(0..700)));
                let k = {
                    let m = sh.mirror.lock().unwrap();
                    let live: Vec<u64> = m.ideal.keys().copied().collect();
                    if live.len() < 2 {
                        continue
                    }
                    live[rng.gen_range(0..live.len())]
                };
                // (not while the writer is still learning the addresses of this tree)
                if !sh.lease(k) {
                    continue
                }
                let still = sh.mirror.lock().unwrap().ideal.contains_key(&k);
                if still {
                    LIVE_TX.with(|p| *p.borrow_mut() = Some((json!({"t": "deref", "k": k}), MOp::Deref(k), 0)));
                    if let Err(e) = db.commit_changes(vec![(0u8, Operation::DereferenceTree(u.tkey(k)))]) {
                        LIVE_TX.with(|p| *p.borrow_mut() = None);
                        sh.problems.lock().unwrap().push(format!("dereference of live tree {k} failed: {e}"));
                    }
                }
                sh.release(k);
            }
        }));
    }
    // readers
    for r in 0..2u64 {
        let (sh, db, u, rc) = (sh.clone(), db.clone(), u.clone(), root_cids.clone());
        handles.push(std::thread::spawn(move || {
            let mut rng = rand::rngs::SmallRng::seed_from_u64(seed ^ (0xcc + r));
            while !sh.stop.load(Ordering::SeqCst) {
                std::thread::sleep(std::time::Duration::from_micros(100 + rng.gen_range(0..400)));
                let k = rng.gen_range(1..=nt);
                if !sh.lease(k) {
                    continue
                }
                let hold = rng.gen_range(0..800);
                let res = live_locked(&sh, &db, &u, k, &rc, |_s, _c| {}, |_src, _ch| {
                    std::thread::sleep(std::time::Duration::from_micros(hold));
                });
                sh.release(k);
                if let Err(e) = res {
                    sh.problems.lock().unwrap().push(format!("reader: {e}"));
                }
            }
        }));
    }
    // the writer ends the run
    let writer = handles.remove(0);
    let _ = writer.join();
    sh.stop.store(true, Ordering::SeqCst);
    for h in handles {
        let _ = h.join();
    }
    // let the workers finish
    let start = std::time::Instant::now();
    loop {
        let (q, _o, dirty) = db.verif_pipeline_sizes();
        let mq = sh.mirror.lock().unwrap().queue.len();
        let infl = sh.inflight.lock().unwrap().is_some();
        if q == 0 && mq == 0 && !infl && dirty == 0 {
            break
        }
        if start.elapsed().as_secs() > 60 {
            sh.problems.lock().unwrap().push(format!("pipeline did not drain within 60 s (queued {q}, dirty logs {dirty})"));
            break
        }
        std::thread::sleep(std::time::Duration::from_millis(5));
    }
    std::thread::sleep(std::time::Duration::from_millis(50));
    parity_db::verif::set_sink(None);
    // close (drains and enacts everything) and reopen: the final projection is read from what was stored
    let db = match Arc::try_unwrap(db) {
        Ok(d) => {
            if let Err(p) = catch(move || drop(d)) {
                sh.problems.lock().unwrap().push(format!("panic in drop: {p}"));
            }
            match catch(|| Db::open(&mt_options(&dir, &u.v, false))) {
                Ok(Ok(d)) => Arc::new(d),
                Ok(Err(e)) => {
                    println!("{}", json!({"events": 0, "problems": [format!("reopen: {e}")]}));
                    return 1
                },
                Err(p) => {
                    println!("{}", json!({"events": 0, "problems": [format!("reopen panicked: {p}")]}));
                    return 1
                },
            }
        },
        Err(_) => {
            println!("{}", json!({"events": 0, "problems": ["harness: database handle still shared at the end"]}));
            return 1
        },
    };
    // final projection
    let fin = (|| -> Result<J, String> {
        let m = sh.mirror.lock().unwrap();
        let b = sh.bind.lock().unwrap();
        let rc = root_cids.lock().unwrap();
        let mut vis = Vec::new();
        let mut nodes: Vec<J> = Vec::new();
        let mut seen: HashSet<u64> = HashSet::new();
        for k in 1..=nt {
            let r = with_reader(&db, &u.tkey(k), |src| -> Result<J, String> {
                let s = match src {
                    None => return Ok(json!({"live": false, "data": 0, "kids": []})),
                    Some(s) => s,
                };
                let (data, ch) = match s.root()? {
                    None => return Ok(json!({"live": false, "data": 0, "kids": []})),
                    Some(x) => x,
                };
                let cid = rc.iter().rev().find(|c| c.0 == k && u.root_data(c.2) == data).map(|c| c.1 as i64).unwrap_or(-1);
                let mut stack: Vec<u64> = ch.clone();
                while let Some(a) = stack.pop() {
                    let id = b.addr2id.get(&a).copied().unwrap_or(0);
                    if id == 0 || !seen.insert(id) {
                        continue
                    }
                    if let Some((d, c)) = s.node(a)? {
                        let ok = d == u.node_data(id);
                        nodes.push(json!({"id": if ok { id as i64 } else { -(id as i64) }, "kids": c.iter().map(|x| b.addr2id.get(x).copied().unwrap_or(0)).collect::<Vec<_>>()}));
                        stack.extend(c.iter());
                    } else {
                        nodes.push(json!({"id": -(id as i64), "kids": []}));
                    }
                }
                Ok(json!({"live": true, "data": cid, "kids": ch.iter().map(|x| b.addr2id.get(x).copied().unwrap_or(0)).collect::<Vec<_>>()}))
            })?;
            vis.push(r?);
        }
        let entries = db.get_num_column_value_entries(0).map(|n| n as i64).unwrap_or(-1);
        // stored counts of the live nodes
        let d = db.verif_dump(0).map_err(|e| format!("dump: {e}"))?;
        let mut counts: HashMap<u64, u64> = HashMap::new();
        for (_bits, entries) in d.ref_counts.iter() {
            for (a, c) in entries {
                counts.entry(*a).or_insert(*c);
            }
        }
        let mut live: HashSet<u64> = HashSet::new();
        for (_k, (_rc, kids)) in m.applied.iter() {
            m.reach(kids, &mut live);
        }
        let mut rcj = Vec::new();
        let mut stray = 0;
        let mut live_addrs: HashSet<u64> = HashSet::new();
        for id in live.iter() {
            if let Some(a) = b.id2addr.get(id) {
                live_addrs.insert(*a);
                rcj.push(json!({"id": id, "count": counts.get(a).copied().unwrap_or(1)}));
            }
        }
        for a in counts.keys() {
            if !live_addrs.contains(a) {
                stray += 1;
            }
        }
        Ok(json!({"e": "Final", "vis": vis, "nodes": nodes, "entries": entries, "rc": rcj, "stray": stray, "orphans": -1}))
    })();
    match fin {
        Ok(f) => sh.push(f),
        Err(e) => sh.problems.lock().unwrap().push(format!("final read: {e}")),
    }
    let evs = sh.events.lock().unwrap().clone();
    let problems = sh.problems.lock().unwrap().clone();
    let m = sh.mirror.lock().unwrap();
    let ndefer = evs.iter().filter(|e| e["e"] == "Defer").count();
    let nmiss = evs.iter().filter(|e| e["e"] == "LockAck" && e["live"] == false).count();
    let nlocks = evs.iter().filter(|e| e["e"] == "LockAck" && e["live"] == true).count();
    let summary = json!({"events": evs.len(), "problems": problems, "commits": m.next_cid - 1, "ids": m.next_id - 1, "defers": ndefer,
                         "locks": nlocks, "lock_misses": nmiss, "nt": nt});
    drop(m);
    let mut f = std::io::BufWriter::new(std::fs::File::create(&args["out"]).unwrap());
    for e in &evs {
        writeln!(f, "{e}").unwrap();
    }
    drop(f);
    println!("{summary}");
    let _ = std::io::stdout().flush();
    let dbx = Arc::try_unwrap(db).ok();
    let _ = catch(move || drop(dbx));
    let _ = std::fs::remove_dir_all(&dir);
    0
}
