//! pdbh: conformance harness binding the TLA+ specifications in /verif/spec to parity-db.
mod common;
mod pdb;
mod record;
mod dump;
mod workers;
mod small;
mod probe;
mod sys;
mod mtree;
mod slots;

use std::collections::HashMap;

fn parse_args(v: &[String]) -> HashMap<String, String> {
    let mut m = HashMap::new();
    let mut i = 0;
    while i < v.len() {
        if let Some(k) = v[i].strip_prefix("--") {
            if i + 1 < v.len() && !v[i + 1].starts_with("--") {
                m.insert(k.to_string(), v[i + 1].clone());
                i += 2;
            } else {
                m.insert(k.to_string(), "1".to_string());
                i += 1;
            }
        } else {
            i += 1;
        }
    }
    m
}

fn main() {
    let argv: Vec<String> = std::env::args().collect();
    if argv.len() < 2 {
        eprintln!("usage: pdbh <command> [--key value]...");
        std::process::exit(2);
    }
    // panics of the code under test are data: keep them quiet, they are reported in results
    if std::env::var("PDBH_PANICS").is_ok() {
        std::panic::set_hook(Box::new(|i| eprintln!("PANIC: {i}")));
    } else {
        std::panic::set_hook(Box::new(|_| {}));
    }
    let args = parse_args(&argv[2..]);
    let code = match argv[1].as_str() {
        "pdb-replay" => pdb::cmd_replay(&args),
        "lock-child" => small::cmd_lock_child(&args),
        "lock-replay" => small::cmd_lock_replay(&args),
        "lock-race" => small::cmd_lock_race(&args),
        "pagesearch-replay" => small::cmd_pagesearch_replay(&args),
        "migrate-replay" => small::cmd_migrate_replay(&args),
        "admin-replay" => small::cmd_admin_replay(&args),
        "workers-scenario" => workers::cmd_scenario(&args),
        "workers-live" => workers::cmd_live(&args),
        "probe" => probe::cmd_probe(&args),
        "probe-f21" => probe::cmd_probe_f21(&args),
        "powerloss-in-recovery" => probe::cmd_probe_f21(&args),
        "probe-f4" => probe::cmd_probe_f4(&args),
        "probe-f9" => probe::cmd_probe_f9(&args),
        "mtree-replay" => mtree::cmd_replay(&args),
        "mtree-scenario" => mtree::cmd_scenario(&args),
        "mtree-record" => mtree::cmd_record(&args),
        "mtree-live" => mtree::cmd_live(&args),
        "claimleak" => mtree::cmd_claimleak(&args),
        "pdb-record" => record::cmd_record(&args),
        "pdb-record-mt" => record::cmd_record_mt(&args),
        "btree-replay" => small::cmd_btree_replay(&args),
        "slots-replay" => slots::cmd_slots_replay(&args),
        other => {
            eprintln!("unknown command {other}");
            2
        },
    };
    std::process::exit(code);
}
