//! Implementation -> specification: drive the real database with seeded random histories
//! (sequential stepping mode, or real worker threads + concurrent clients), record hook and
//! client events, and write them as NDJSON for TLC (spec/TracePdb.tla).

use crate::common::*;
use parity_db::{Db, Operation};
use rand::{rngs::SmallRng, Rng, SeedableRng};
use serde_json::{json, Value as J};
use std::collections::HashMap;
use std::io::Write;
use std::path::PathBuf;
use std::sync::atomic::{AtomicBool, AtomicUsize, Ordering};
use std::sync::{Arc, Mutex};

static SWEEP: AtomicUsize = AtomicUsize::new(0);

fn rand_tx(rng: &mut SmallRng, u: &Universe, maxops: usize, invalid_pct: u32, unique: Option<&AtomicUsize>) -> (J, Vec<(u8, Operation<Vec<u8>, Vec<u8>>)>) {
    let mut n = 1 + rng.gen::<usize>() % maxops;
    let mut jops = Vec::new();
    let mut ops = Vec::new();
    // one time in seven (when there is a counting column): a burst of up to six operations on ONE key of it, so that
    // a count goes up and down, through zero and up again inside a single transaction
    let rc_cols: Vec<usize> = (0..u.cols.len()).filter(|c| u.cols[*c].is_rc()).collect();
    let burst = if !rc_cols.is_empty() && unique.is_none() && rng.gen::<u32>() % 7 == 0 {
        n = 3 + rng.gen::<usize>() % 4;
        Some((rc_cols[rng.gen::<usize>() % rc_cols.len()], 1 + rng.gen::<usize>() % u.nkeys))
    } else {
        None
    };
    for _ in 0..n {
        let (c, k) = match burst {
            Some(b) => b,
            None => (rng.gen::<usize>() % u.cols.len(), 1 + rng.gen::<usize>() % u.nkeys),
        };
        let spec = &u.cols[c];
        let r = rng.gen::<u32>() % 100;
        let key = u.key(c, k).clone();
        let (t, v) = if spec.is_rc() {
            if r < 45 {
                ("set", 1)
            } else if r < 80 {
                ("del", 0)
            } else {
                ("ref", 0)
            }
        } else if r < invalid_pct {
            ("ref", 0)
        } else if r < (if spec.collide { 88 } else { 65 }) {
            // (colliding universes: mostly live keys, so that their shared index page overflows)
            let v = match unique {
                Some(ctr) => ctr.fetch_add(1, Ordering::SeqCst) as i64 + 1,
                None => {
                    if spec.value_from_key() {
                        1
                    } else if u.size_table.is_some() {
                        // boundary mode: sweep through every value id (= every boundary length)
                        1 + (SWEEP.fetch_add(1, Ordering::SeqCst) % u.nvals) as i64
                    } else {
                        1 + (rng.gen::<usize>() % u.nvals) as i64
                    }
                },
            };
            ("set", v)
        } else {
            ("del", 0)
        };
        jops.push(json!({"c": c + 1, "k": k, "t": t, "v": v}));
        ops.push((
            c as u8,
            match t {
                "set" => Operation::Set(key, if unique.is_some() && !spec.value_from_key() { u.val_unique(c, k, v) } else { u.val(c, k, v) }),
                "del" => Operation::Dereference(key),
                _ => Operation::Reference(key),
            },
        ));
    }
    (J::Array(jops), ops)
}

fn obs_event(db: &Db, u: &Universe) -> J {
    json!({"e": "Obs", "obs": project(db, u)})
}

/// raw structure of every hash / btree column (evaluated by the trace spec when the model says
/// the pipeline is drained)
fn dump_events(db: &Db, u: &Universe, rec: &Recorder) {
    if !DUMPS.load(Ordering::Relaxed) {
        return
    }
    // at most one dump per 400 recorded events (dumps are large)
    let now = rec.len();
    let last = LAST_DUMP.load(Ordering::Relaxed);
    if last != 0 && now < last + 400 {
        return
    }
    LAST_DUMP.store(now.max(1), Ordering::Relaxed);
    for c in 0..u.cols.len() {
        if u.cols[c].is_multitree() {
            continue
        }
        if let Ok(Some(ev)) = catch(|| crate::dump::dump_event(db, u, c)) {
            rec.push(ev);
        }
    }
}
static DUMPS: AtomicBool = AtomicBool::new(false);
static LAST_DUMP: AtomicUsize = AtomicUsize::new(0);

fn counts_events(db: &Db, u: &Universe, rec: &Recorder) {
    for c in 0..u.cols.len() {
        if let Some(cs) = project_counts(db, u, c) {
            rec.push(json!({"e": "Counts", "c": c + 1, "counts": cs}));
        }
    }
}

fn commit(db: &Db, rec: &Recorder, jtx: J, ops: Vec<(u8, Operation<Vec<u8>, Vec<u8>>)>) -> Result<bool, String> {
    PENDING_TX.with(|p| *p.borrow_mut() = Some(jtx.clone()));
    let r = catch(|| db.commit_changes(ops));
    PENDING_TX.with(|p| *p.borrow_mut() = None);
    match r {
        Err(p) => Err(format!("panic in commit: {p}")),
        Ok(Ok(())) => Ok(true),
        Ok(Err(_)) => {
            rec.push(json!({"e": "Reject", "tx": jtx, "t": tid()}));
            Ok(false)
        },
    }
}

/// Directed choice for columns whose keys collide on every index-visible bit (`collide`), made while an index
/// growth is pending (two generations on disk, pipeline drained so that the files are the planned state): find a key
/// A that is still indexed by the OLD generation only, at sub-index s of its page, and a key B of the same collision
/// group whose entry in the CURRENT generation sits at the same sub-index s.  Returns an operation on A (remove /
/// replace) when such a pair exists; otherwise an insertion of a B that will land on sub-index s of the current
/// page (so that a later call finds the pair).  Slot numbers of different generations must never be mixed up.
fn align_target(db: &Db, u: &Universe, c: usize, rng: &mut SmallRng) -> Option<(J, (u8, Operation<Vec<u8>, Vec<u8>>))> {
    let d = db.verif_dump(c as u8).ok()?;
    if d.indexes.len() < 2 {
        return None
    }
    let spec = &u.cols[c];
    let rc = if spec.is_rc() { 4 } else { 0 };
    let rank_at = |tier: u8, off: u64| -> Option<usize> {
        let t = d.tables.iter().find(|t| t.tier == tier && t.exists)?;
        let s = t.slots.get(off as usize - 1)?;
        let (kind, _) = crate::dump::classify(t, s);
        let o = match kind {
            "head" | "sized" => 2 + rc,
            "mhead" => 10 + rc,
            _ => return None,
        };
        let tail = s.get(o..o + 26)?;
        (1..=u.nkeys).find(|k| &u.key(c, *k)[6..32] == tail)
    };
    let cur = &d.indexes[0];
    let old = d.indexes.last()?;
    let mut cur_pos: HashMap<usize, (u64, u64)> = HashMap::new();
    let mut cur_occ: HashMap<u64, std::collections::HashSet<u64>> = HashMap::new();
    for (chunk, sub, _pk, tier, off) in cur.entries.iter() {
        cur_occ.entry(*chunk).or_default().insert(*sub);
        if let Some(k) = rank_at(*tier, *off) {
            cur_pos.insert(k, (*chunk, *sub));
        }
    }
    let mut old_only: Vec<(usize, u64)> = Vec::new();
    let mut in_old: std::collections::HashSet<usize> = Default::default();
    for (_chunk, sub, _pk, tier, off) in old.entries.iter() {
        if let Some(k) = rank_at(*tier, *off) {
            in_old.insert(k);
            if !cur_pos.contains_key(&k) {
                old_only.push((k, *sub));
            }
        }
    }
    let prefix = |k: usize| u64::from_be_bytes(u.key(c, k)[0..8].try_into().unwrap());
    let group = |a: usize| (1..=u.nkeys).filter(move |b| *b != a && prefix(*b) == prefix(a)).collect::<Vec<_>>();
    let set = |k: usize, v: i64| (json!({"c": c + 1, "k": k, "t": "set", "v": v}), (c as u8, Operation::Set(u.key(c, k).clone(), u.val(c, k, v))));
    let del = |k: usize| (json!({"c": c + 1, "k": k, "t": "del", "v": 0}), (c as u8, Operation::Dereference(u.key(c, k).clone())));
    // a pair that is aligned now
    for (a, s) in old_only.iter() {
        for b in group(*a) {
            if cur_pos.get(&b).map(|p| p.1) == Some(*s) {
                // (counting column: the value is a function of the key - value id 1, as in rand_tx)
                let v = if spec.is_rc() { 1 } else { 1 + (rng.gen::<usize>() % u.nvals) as i64 };
                return Some(if rng.gen::<u32>() % 2 == 0 { del(*a) } else { set(*a, v) })
            }
        }
    }
    // make one: a key B that is stored nowhere, whose insertion takes the first empty sub-index of its page
    for (a, s) in old_only.iter() {
        let chunk = prefix(*a) >> (64 - cur.bits as u32);
        let occ = cur_occ.get(&chunk);
        let first_empty = (0..64u64).find(|i| occ.map_or(true, |o| !o.contains(i)))?;
        if first_empty != *s {
            continue
        }
        for b in group(*a) {
            if !cur_pos.contains_key(&b) && !in_old.contains(&b) {
                return Some(set(b, 1))
            }
        }
    }
    None
}

/// Sequential random history in stepping mode, with clean restarts and crashes taken at
/// step boundaries or at a random hook event inside a pipeline step.
/// `pdbh pdb-record --out F --cols JSON --nkeys N --nvals N --steps N --seed S [--crash PCT]`
pub fn cmd_record(args: &HashMap<String, String>) -> i32 {
    let cols = parse_cols(&args["cols"]);
    let nkeys: usize = args["nkeys"].parse().unwrap();
    let nvals: usize = args["nvals"].parse().unwrap();
    let steps: usize = args["steps"].parse().unwrap();
    let seed: u64 = args.get("seed").map(|s| s.parse().unwrap()).unwrap_or(1);
    let crash_pct: u32 = args.get("crash").map(|s| s.parse().unwrap()).unwrap_or(0);
    let powerloss_pct: u32 = args.get("powerloss").map(|s| s.parse().unwrap()).unwrap_or(0);
    let mut nrace = 0usize;
    let mut npower = 0usize;
    let mut npower_changed = 0usize;
    let small = args.contains_key("small");
    DUMPS.store(args.contains_key("dumps"), Ordering::Relaxed);
    let u = if args.contains_key("boundary") {
        Universe::with_boundary_sizes(cols, nkeys, seed)
    } else {
        Universe::new(cols, nkeys, nvals, seed, small)
    };
    let root = scratch_root();
    let mut dir = fresh_dir(&root, "rec");
    let rec = Recorder::install();
    let mut rng = SmallRng::seed_from_u64(seed ^ 0x9e3779b97f4a7c15);
    if powerloss_pct > 0 {
        let shadow = root.join("shadow");
        let _ = std::fs::remove_dir_all(&shadow);
        std::fs::create_dir_all(&shadow).expect("shadow dir");
        *rec.durable.lock().unwrap() = Some(DurableState::new(dir.clone(), shadow));
    }
    let mut db = Some(Db::open_or_create(&options(&dir, &u.cols, seed, false)).expect("create"));
    // index growth preamble (columns marked `grow`): afterwards record ids run ahead of commit ids
    if let Err(e) = grow_preamble(db.as_ref().unwrap(), &u.cols, seed % 2 == 0) {
        println!("{}", json!({"events": 0, "problems": [e]}));
        return 1
    }
    let pre = rec.take();
    let init_cid = pre.iter().filter(|e| e["e"] == "Commit").filter_map(|e| e["cid"].as_u64()).max().unwrap_or(0);
    let init_rid = pre.iter().filter(|e| e["e"] == "EndRecord").filter_map(|e| e["a"][0].as_u64()).max().map(|x| x + 1).unwrap_or(1);
    let mut problems: Vec<String> = Vec::new();
    let mut gen = 0;
    let mut ncrash = 0usize;
    let mut nrestart = 0usize;
    let mut i = 0usize;
    let cursor_pct: u32 = args.get("cursor").map(|s| s.parse().unwrap()).unwrap_or(0);
    let btree_cols: Vec<usize> = (0..u.cols.len()).filter(|c| u.cols[*c].is_btree()).collect();
    // an open iterator borrows the handle; always dropped before the handle
    let mut iter: Option<(usize, parity_db::BTreeIterator<'static>)> = None;
    // scripted prefix (--growth_crash, column 1 with colliding keys): fill the shared index page until
    // the index grows, remove a key that still lives in the OLD generation, run the reindex to its end
    // (the drop of the old generation is logged), write again, flush, and crash right after the old
    // index file was unlinked by the enact of the drop record
    enum Forced {
        Tx(J, Vec<(u8, Operation<Vec<u8>, Vec<u8>>)>),
        Step(u32),
        CrashAt(&'static str),
        /// drain (no reindex), then a directed operation on slot-aligned colliding keys (align_target)
        Align(usize),
    }
    let collide_cols: Vec<usize> = (0..u.cols.len()).filter(|c| u.cols[*c].collide && !u.cols[*c].is_btree()).collect();
    let mut naligned = 0usize;
    let mut script: std::collections::VecDeque<Forced> = Default::default();
    if args.contains_key("growth_crash") && u.cols[0].collide && !u.cols[0].is_rc() {
        let set = |k: usize, v: i64| (json!({"c": 1, "k": k, "t": "set", "v": v}), (0u8, Operation::Set(u.key(0, k).clone(), u.val(0, k, v))));
        let del = |k: usize| (json!({"c": 1, "k": k, "t": "del", "v": 0}), (0u8, Operation::Dereference(u.key(0, k).clone())));
        let mut k = 1;
        while k <= 72.min(u.nkeys) {
            let group: Vec<_> = (k..(k + 4).min(u.nkeys + 1)).map(|x| set(x, 1)).collect();
            script.push_back(Forced::Tx(J::Array(group.iter().map(|g| g.0.clone()).collect()), group.into_iter().map(|g| g.1).collect()));
            script.push_back(Forced::Step(40)); // process
            k += 4;
        }
        script.push_back(Forced::Step(55)); // flush
        for _ in 0..24 {
            script.push_back(Forced::Step(70)); // enact
        }
        script.push_back(Forced::Step(80)); // clean
        let (j, o) = del(3);
        script.push_back(Forced::Tx(J::Array(vec![j]), vec![o]));
        script.push_back(Forced::Step(40));
        for _ in 0..12 {
            script.push_back(Forced::Step(88)); // reindex batch
        }
        let (j, o) = set(3, 2);
        script.push_back(Forced::Tx(J::Array(vec![j]), vec![o]));
        script.push_back(Forced::Step(40));
        script.push_back(Forced::Step(55));
        script.push_back(Forced::CrashAt("Sys:unlink:index"));
    }
    while (i < steps || !script.is_empty()) && problems.is_empty() {
        i += 1;
        let mut forced = script.pop_front();
        if forced.is_none() && !collide_cols.is_empty() && iter.is_none() && rng.gen::<u32>() % 100 < 10 {
            forced = Some(Forced::Align(collide_cols[rng.gen::<usize>() % collide_cols.len()]));
        }
        if let Some(Forced::Align(c)) = forced {
            let d = db.as_ref().unwrap();
            let res: Result<(), String> = (|| {
                let mut guard = 0;
                while d.verif_pipeline_sizes().0 > 0 && guard < 64 {
                    catch(|| d.process_commits()).map_err(|p| format!("panic: {p}"))?.map_err(|e| format!("process_commits: {e}"))?;
                    guard += 1;
                }
                catch(|| d.flush_logs()).map_err(|p| format!("panic: {p}"))?.map_err(|e| format!("flush_logs: {e}"))?;
                for _ in 0..8 {
                    while catch(|| enact_one_guarded(d)).map_err(|p| format!("panic: {p}"))?.map_err(|e| format!("enact: {e}"))? {}
                }
                catch(|| d.clean_logs()).map_err(|p| format!("panic: {p}"))?.map_err(|e| format!("clean_logs: {e}"))?;
                Ok(())
            })();
            if let Err(e) = res {
                problems.push(e);
                continue
            }
            if let Some((j, o)) = align_target(d, &u, c, &mut rng) {
                naligned += 1;
                script.push_front(Forced::Step(40));
                script.push_front(Forced::Tx(J::Array(vec![j]), vec![o]));
            }
            continue
        }
        // cursor activity (btree columns): open / seek / step in both directions, interleaved
        // with everything else while the iterator stays open
        if forced.is_none() && cursor_pct > 0 && !btree_cols.is_empty() && rng.gen::<u32>() % 100 < cursor_pct {
            let d = db.as_ref().unwrap();
            let res: Result<(), String> = (|| {
                if iter.is_none() {
                    let c = btree_cols[rng.gen::<usize>() % btree_cols.len()];
                    let it = catch(|| d.iter(c as u8)).map_err(|p| format!("panic in iter: {p}"))?.map_err(|e| format!("iter: {e}"))?;
                    // SAFETY: cleared before the handle is dropped (see below)
                    let it: parity_db::BTreeIterator<'static> = unsafe { std::mem::transmute(it) };
                    iter = Some((c, it));
                    rec.push(json!({"e": "CurOpen", "c": c + 1}));
                    return Ok(())
                }
                let (c, it) = iter.as_mut().unwrap();
                let c = *c;
                let x = rng.gen::<u32>() % 100;
                if x < 12 {
                    let k = 1 + rng.gen::<usize>() % u.nkeys;
                    let key = u.key(c, k).clone();
                    catch(|| it.seek(&key)).map_err(|p| format!("panic in seek: {p}"))?.map_err(|e| format!("seek: {e}"))?;
                    rec.push(json!({"e": "CurSeek", "k": k}));
                } else if x < 17 {
                    catch(|| it.seek_to_first()).map_err(|p| format!("panic in seek: {p}"))?.map_err(|e| format!("seek: {e}"))?;
                    rec.push(json!({"e": "CurFirst"}));
                } else if x < 22 {
                    catch(|| it.seek_to_last()).map_err(|p| format!("panic in seek: {p}"))?.map_err(|e| format!("seek: {e}"))?;
                    rec.push(json!({"e": "CurLast"}));
                } else if x < 26 {
                    iter = None;
                    rec.push(json!({"e": "CurClose"}));
                } else {
                    let fwd = x < 63;
                    let got = if fwd { catch(|| it.next()) } else { catch(|| it.prev()) };
                    let got = got.map_err(|p| format!("panic in iterator step: {p}"))?.map_err(|e| format!("iterator step: {e}"))?;
                    let res: Vec<i64> = match &got {
                        None => vec![],
                        Some((k, v)) => {
                            let rank = u.key_rank(c, k);
                            vec![rank as i64, if rank == 0 { -1 } else { u.val_id(c, rank, v) }]
                        },
                    };
                    rec.push(json!({"e": if fwd { "CurNext" } else { "CurPrev" }, "res": res}));
                }
                Ok(())
            })();
            if let Err(e) = res {
                problems.push(e);
            }
            continue
        }
        let mut forced_tx = None;
        let mut forced_aim: Option<&'static str> = None;
        let r = match forced {
            Some(Forced::Tx(j, o)) => {
                forced_tx = Some((j, o));
                0
            },
            Some(Forced::Step(r)) => r,
            Some(Forced::CrashAt(a)) => {
                forced_aim = Some(a);
                95
            },
            Some(Forced::Align(_)) => unreachable!(),
            None => rng.gen::<u32>() % 100,
        };
        if r >= 90 && iter.is_some() {
            // restart or crash: the iterator goes first
            iter = None;
            rec.push(json!({"e": "CurClose"}));
        }
        let res: Result<(), String> = (|| {
            let d = db.as_ref().unwrap();
            if r < 35 {
                let (jtx, ops) = match forced_tx.take() {
                    Some(t) => t,
                    None => rand_tx(&mut rng, &u, 4, 6, None),
                };
                commit(d, &rec, jtx, ops)?;
            } else if r < 52 {
                catch(|| d.process_commits()).map_err(|p| format!("panic: {p}"))?.map_err(|e| format!("process_commits: {e}"))?;
            } else if r < 62 {
                catch(|| d.flush_logs()).map_err(|p| format!("panic: {p}"))?.map_err(|e| format!("flush_logs: {e}"))?;
            } else if r < 78 {
                catch(|| enact_one_guarded(d)).map_err(|p| format!("panic: {p}"))?.map_err(|e| format!("enact: {e}"))?;
            } else if r < 86 {
                // one time in three the commit worker's step (enact of the next records) is run INSIDE the
                // clean-up, right after its table flush and before it truncates logs (the hook sink is the
                // yield point): logs that become dirty there were not covered by that flush
                let race = rng.gen::<u32>() % 3 == 0 && d.verif_pipeline_sizes().2 < 3;
                if race {
                    // SAFETY: the callback is removed before `d` goes out of scope (a few lines below)
                    let dp: &'static Db = unsafe { std::mem::transmute::<&Db, &'static Db>(d) };
                    let done = Arc::new(AtomicBool::new(false));
                    rec.set_callback(Some(Arc::new(move |name: &str, _a: &[u64], _pos: usize| {
                        if name == "TablesFlushed" && !done.swap(true, Ordering::SeqCst) {
                            let _ = catch(|| {
                                let _ = dp.verif_enact_one();
                                let _ = dp.verif_enact_one();
                            });
                        }
                    })));
                    nrace += 1;
                }
                let r = catch(|| d.clean_logs());
                if race {
                    rec.set_callback(None);
                }
                r.map_err(|p| format!("panic: {p}"))?.map_err(|e| format!("clean_logs: {e}"))?;
                if d.verif_pipeline_sizes().0 == 0 {
                    dump_events(d, &u, &rec);
                }
            } else if r < 90 || (r < 93 && u.cols.iter().any(|c| c.collide)) {
                catch(|| d.process_reindex()).map_err(|p| format!("panic: {p}"))?.map_err(|e| format!("process_reindex: {e}"))?;
            } else if r < 95 {
                // clean close and reopen
                nrestart += 1;
                let old = db.take();
                catch(move || drop(old)).map_err(|p| format!("panic in drop: {p}"))?;
                rec.push(json!({"e": "Closed"}));
                let nd = catch(|| Db::open(&options(&dir, &u.cols, seed, false)))
                    .map_err(|p| format!("panic in open: {p}"))?
                    .map_err(|e| format!("reopen: {e}"))?;
                rec.push(json!({"e": "Reopened"}));
                counts_events(&nd, &u, &rec);
                dump_events(&nd, &u, &rec);
                db = Some(nd);
            } else if r < 95 + crash_pct.min(5) || forced_aim.is_some() {
                // crash: at this boundary, or at the j-th hook event of a pipeline step
                ncrash += 1;
                gen += 1;
                let img = root.join(format!("img{gen}"));
                let inside = forced_aim.is_some() || rng.gen::<u32>() % 3 != 0;
                // power loss instead of a process crash: data not yet synced may be gone.  The image is cut
                // down at the instant it is taken (the sync state moves on while the burst continues).
                let do_power = powerloss_pct > 0 && rng.gen::<u32>() % 100 < powerloss_pct;
                let pl_seed = rng.gen::<u64>();
                let power = |img: &std::path::Path| -> Option<u64> {
                    if !do_power {
                        return None
                    }
                    let g = rec.durable.lock().unwrap();
                    let d = g.as_ref()?;
                    let mut prng = SmallRng::seed_from_u64(pl_seed);
                    let mut pick = |n: u64| if n == 0 { 0 } else { prng.gen::<u64>() % n };
                    crate::sys::quiet(|| d.apply_power_loss(img, &mut pick)).ok()
                };
                let pl_result: Arc<Mutex<Option<u64>>> = Arc::new(Mutex::new(None));
                if inside {
                    // the j-th event of the burst, or (aimed) the instant right after the old index
                    // file of a finished growth was unlinked / after a log file was truncated
                    let aimed = match (forced_aim, rng.gen::<u32>() % 4) {
                        (Some(a), _) => Some(a),
                        (None, 0) => Some("Sys:unlink:index"),
                        (None, 1) => Some("Sys:ftruncate"),
                        _ => None,
                    };
                    // power loss: aim at the instants where something is NOT yet on stable storage (a table stored to
                    // and not msynced, a record appended and not fdatasynced, a clean-up half way through its msyncs)
                    let (aimed, skip) = if do_power && forced_aim.is_none() {
                        let c = ["TabWrite", "EndRecord", "EnactEnd", "Sys:msync", "Sys:fdatasync", "TablesFlushed"];
                        let i = rng.gen::<usize>() % (c.len() + 2);
                        if i < c.len() {
                            (Some(c[i]), rng.gen::<usize>() % 4)
                        } else {
                            (aimed, 0)
                        }
                    } else {
                        (aimed, 0)
                    };
                    let nmatch = Arc::new(AtomicUsize::new(0));
                    let j = rng.gen::<usize>() % 40;
                    let cut: Arc<Mutex<Option<usize>>> = Arc::new(Mutex::new(None));
                    let cut2 = cut.clone();
                    let n = Arc::new(AtomicUsize::new(0));
                    let src = dir.clone();
                    let img2 = img.clone();
                    let rec2 = rec.clone();
                    let plr2 = pl_result.clone();
                    rec.set_callback(Some(Arc::new(move |name: &str, _a: &[u64], pos: usize| {
                        let k = n.fetch_add(1, Ordering::SeqCst);
                        let hit = match aimed {
                            Some(prefix) => name.starts_with(prefix) && nmatch.fetch_add(1, Ordering::SeqCst) >= skip,
                            None => k == j,
                        };
                        if hit && cut2.lock().unwrap().is_none() {
                            if crate::sys::quiet(|| copy_dir(&src, &img2)).is_ok() {
                                *cut2.lock().unwrap() = Some(pos);
                                if do_power {
                                    let g = rec2.durable.lock().unwrap();
                                    if let Some(d) = g.as_ref() {
                                        let mut prng = SmallRng::seed_from_u64(pl_seed);
                                        let mut pick = |n: u64| if n == 0 { 0 } else { prng.gen::<u64>() % n };
                                        *plr2.lock().unwrap() = crate::sys::quiet(|| d.apply_power_loss(&img2, &mut pick)).ok();
                                    }
                                }
                            }
                        }
                    })));
                    // a burst of pipeline work during which the process "dies"
                    let _ = catch(|| {
                        let _ = d.process_commits();
                        if aimed.is_some() {
                            let _ = d.process_reindex();
                            let _ = d.process_commits();
                        }
                        let _ = d.flush_logs();
                        let _ = enact_one_guarded(d);
                        let _ = enact_one_guarded(d);
                        let _ = d.clean_logs();
                        if aimed.is_some() {
                            // (clean in between: an enact call waits for a cleanup when too many logs are dirty)
                            for _ in 0..3 {
                                let _ = enact_one_guarded(d);
                                let _ = enact_one_guarded(d);
                                let _ = d.clean_logs();
                            }
                        }
                    });
                    rec.set_callback(None);
                    let c = *cut.lock().unwrap();
                    match c {
                        Some(pos) => rec.truncate(pos),
                        None => {
                            // fewer than j events: crash at the end of the burst
                            copy_dir(&dir, &img).map_err(|e| format!("image: {e}"))?;
                            *pl_result.lock().unwrap() = power(&img);
                        },
                    }
                } else {
                    copy_dir(&dir, &img).map_err(|e| format!("image: {e}"))?;
                    *pl_result.lock().unwrap() = power(&img);
                }
                if let Some(n) = *pl_result.lock().unwrap() {
                    npower += 1;
                    if n > 0 {
                        npower_changed += 1;
                    }
                }
                rec.push(json!({"e": "Crash"}));
                // the old process is gone: its drop is not part of the history
                rec.set_enabled(false);
                let old = db.take();
                let _ = catch(move || drop(old));
                rec.set_enabled(true);
                let _ = std::fs::remove_dir_all(&dir);
                dir = img;
                if powerloss_pct > 0 {
                    // what the image holds is on stable storage
                    let shadow = root.join("shadow");
                    let _ = std::fs::remove_dir_all(&shadow);
                    let _ = std::fs::create_dir_all(&shadow);
                    *rec.durable.lock().unwrap() = Some(DurableState::new(dir.clone(), shadow));
                }
                let nd = catch(|| Db::open(&options(&dir, &u.cols, seed, false)))
                    .map_err(|p| format!("panic while opening crash image: {p}"))?
                    .map_err(|e| format!("opening crash image failed: {e}"))?;
                let counts: Vec<J> = (0..u.cols.len())
                    .map(|c| project_counts(&nd, &u, c).map(|v| json!(v)).unwrap_or(json!([])))
                    .collect();
                rec.push(json!({"e": "Recovered", "obs": project(&nd, &u), "counts": counts}));
                dump_events(&nd, &u, &rec);
                db = Some(nd);
            }
            Ok(())
        })();
        if let Err(e) = res {
            problems.push(e);
            break
        }
        if let Some(d) = db.as_ref() {
            match catch(|| obs_event(d, &u)) {
                Ok(o) => rec.push(o),
                Err(p) => problems.push(format!("panic in get: {p}")),
            }
        }
    }
    if iter.is_some() {
        iter = None;
        rec.push(json!({"e": "CurClose"}));
    }
    drop(iter);
    // steady workload (C14): the same insert-all / remove-all round repeated; the fill marks of the
    // value tables after each round are reported and must not keep growing
    if problems.is_empty() && args.contains_key("steady") {
        let rounds: usize = args["steady"].parse().unwrap_or(6);
        let d = db.as_ref().unwrap();
        let mut marks: Vec<Vec<u64>> = Vec::new();
        let drain = |d: &Db| -> Result<(), String> {
            for _ in 0..8 {
                d.process_commits().map_err(|e| format!("{e}"))?;
            }
            d.flush_logs().map_err(|e| format!("{e}"))?;
            d.enact_logs().map_err(|e| format!("{e}"))?;
            d.clean_logs().map_err(|e| format!("{e}"))?;
            Ok(())
        };
        'rounds: for _round in 0..rounds {
            for phase in 0..2 {
                for c in 0..u.cols.len() {
                    if u.cols[c].is_multitree() {
                        continue
                    }
                    let mut jops = Vec::new();
                    let mut ops = Vec::new();
                    for k in 1..=u.nkeys {
                        let v = if u.cols[c].value_from_key() { 1 } else { 1 + (k % u.nvals.max(1)) as i64 };
                        if phase == 0 {
                            jops.push(json!({"c": c + 1, "k": k, "t": "set", "v": v}));
                            ops.push((c as u8, Operation::Set(u.key(c, k).clone(), u.val(c, k, v))));
                        } else {
                            // (rc columns: as many dereferences as it takes to drop the key)
                            jops.push(json!({"c": c + 1, "k": k, "t": "del", "v": 0}));
                            ops.push((c as u8, Operation::Dereference(u.key(c, k).clone())));
                        }
                    }
                    // transactions of at most 4 operations
                    let mut ops = ops.into_iter();
                    for j in jops.chunks(4) {
                        let o: Vec<(u8, Operation<Vec<u8>, Vec<u8>>)> = ops.by_ref().take(j.len()).collect();
                        if let Err(e) = commit(d, &rec, J::Array(j.to_vec()), o) {
                            problems.push(e);
                            break 'rounds
                        }
                    }
                }
                if let Err(e) = drain(d) {
                    problems.push(e);
                    break 'rounds
                }
            }
            // rc columns may still hold keys (counts above one): that is steady too
            let mut row = Vec::new();
            for c in 0..u.cols.len() {
                // (btree nodes change size with the shape of the tree and keep touching new size
                // tiers; for btree columns the per-round structural dump below is the leak check)
                if u.cols[c].is_multitree() || u.cols[c].is_btree() {
                    continue
                }
                if let Ok(dump) = d.verif_dump(c as u8) {
                    for t in dump.tables.iter().filter(|t| t.exists) {
                        row.push(t.file_filled);
                    }
                }
            }
            marks.push(row);
            dump_events(d, &u, &rec);
        }
        rec.push(json!({"e": "Steady", "marks": marks}));
        rec.push(obs_event(d, &u));
    }
    // final clean close + reopen
    if problems.is_empty() {
        let old = db.take();
        if let Err(p) = catch(move || drop(old)) {
            problems.push(format!("panic in drop: {p}"));
        } else {
            rec.push(json!({"e": "Closed"}));
            match catch(|| Db::open(&options(&dir, &u.cols, seed, false))) {
                Ok(Ok(nd)) => {
                    rec.push(json!({"e": "Reopened"}));
                    counts_events(&nd, &u, &rec);
                    rec.push(obs_event(&nd, &u));
                    let _ = catch(move || drop(nd));
                },
                Ok(Err(e)) => problems.push(format!("reopen: {e}")),
                Err(p) => problems.push(format!("panic in open: {p}")),
            }
        }
    }
    Recorder::uninstall();
    let events = rec.take();
    write_trace(&args["out"], &events);
    let summary = json!({"events": events.len(), "aligned_collider_ops": naligned, "crashes": ncrash, "restarts": nrestart, "problems": problems, "universe": u.describe(), "init_rid": init_rid, "init_cid": init_cid, "nvals": u.nvals, "values_swept": SWEEP.load(Ordering::SeqCst),
                         "enact_inside_cleanup": nrace, "powerloss_images": npower, "powerloss_images_with_data_dropped": npower_changed});
    println!("{}", summary);
    let _ = std::fs::remove_dir_all(&root);
    if problems.is_empty() {
        0
    } else {
        1
    }
}

pub fn write_trace(path: &str, events: &[J]) {
    let mut f = std::io::BufWriter::new(std::fs::File::create(path).expect("trace out"));
    for e in events {
        writeln!(f, "{}", e).unwrap();
    }
}

/// Concurrent run: real worker threads, `committers` writer threads and `readers` reader
/// threads.  Every Set writes a value id that is unique in the run, so a read identifies
/// the transaction it observed.
/// `pdbh pdb-record-mt --out F --cols JSON --nkeys N --commits N --seed S`
pub fn cmd_record_mt(args: &HashMap<String, String>) -> i32 {
    let cols = parse_cols(&args["cols"]);
    let nkeys: usize = args["nkeys"].parse().unwrap();
    let commits: usize = args["commits"].parse().unwrap();
    let seed: u64 = args.get("seed").map(|s| s.parse().unwrap()).unwrap_or(1);
    let ncommitters: usize = args.get("committers").map(|s| s.parse().unwrap()).unwrap_or(2);
    let nreaders: usize = args.get("readers").map(|s| s.parse().unwrap()).unwrap_or(3);
    let max_reads: usize = args.get("reads").map(|s| s.parse().unwrap()).unwrap_or(600);
    // --spin: readers never pause (a lookup of several dependent steps is in progress at almost every instant)
    let spin = args.contains_key("spin");
    let u = Arc::new(Universe::new(cols, nkeys, 1, seed, !args.contains_key("large")));
    let root = scratch_root();
    let dir: PathBuf = fresh_dir(&root, "mt");
    let rec = Recorder::install();
    let db = Arc::new(Db::open_or_create(&options(&dir, &u.cols, seed, true)).expect("create"));
    rec.take();
    // the hook sink is a yield point: stretch the windows in which one layer hands data over to the next (a reindex
    // batch collected but not yet published in the log overlay; a record planned but not yet published; a record
    // being written to the tables), so that the reader threads fall into them
    // (`hot` is set while a worker sits in the longest of them: readers, otherwise paced so that their reads are
    // spread over the whole run, then read as fast as they can)
    let hot = Arc::new(AtomicBool::new(false));
    {
        let n = AtomicUsize::new(0);
        let hot = hot.clone();
        rec.set_callback(Some(Arc::new(move |name: &str, _a: &[u64], _pos: usize| {
            let k = n.fetch_add(1, Ordering::Relaxed);
            match name {
                "ReindexRecord" | "RcReindexRecord" => {
                    hot.store(true, Ordering::SeqCst);
                    std::thread::sleep(std::time::Duration::from_millis(12));
                    hot.store(false, Ordering::SeqCst);
                },
                "BeginRecord" | "EnactBegin" | "CleanCovl" | "EndRead" if k % 13 == 0 => {
                    std::thread::sleep(std::time::Duration::from_micros(600))
                },
                _ => {},
            }
        })));
    }
    let ctr = Arc::new(AtomicUsize::new(0));
    let stop = Arc::new(AtomicBool::new(false));
    let problems: Arc<Mutex<Vec<String>>> = Arc::new(Mutex::new(Vec::new()));
    let mut handles = Vec::new();
    for w in 0..ncommitters {
        let (db, u, rec, ctr, problems) = (db.clone(), u.clone(), rec.clone(), ctr.clone(), problems.clone());
        handles.push(std::thread::spawn(move || {
            let mut rng = SmallRng::seed_from_u64(seed * 31 + w as u64);
            for _ in 0..commits {
                let (jtx, ops) = rand_tx(&mut rng, &u, 4, 3, Some(&ctr));
                if let Err(e) = commit(&db, &rec, jtx, ops) {
                    problems.lock().unwrap().push(e);
                    return
                }
                // (paced: an index growth is migrated by the log worker only when a commit arrives after the record
                // that triggered it was applied, so the commits must not all be queued before the first is applied)
                match rng.gen::<u32>() % 8 {
                    0 | 1 => std::thread::yield_now(),
                    2 | 3 | 4 => std::thread::sleep(std::time::Duration::from_micros(500)),
                    _ => {},
                }
            }
        }));
    }
    let mut rhandles = Vec::new();
    for r in 0..nreaders {
        let (db, u, rec, stop, problems, hot) = (db.clone(), u.clone(), rec.clone(), stop.clone(), problems.clone(), hot.clone());
        rhandles.push(std::thread::spawn(move || {
            let mut rng = SmallRng::seed_from_u64(seed * 77 + r as u64);
            let t = tid();
            let mut n = 0usize;
            while !stop.load(Ordering::SeqCst) && n < max_reads {
                n += 1;
                if !spin && !hot.load(Ordering::SeqCst) {
                    std::thread::sleep(std::time::Duration::from_micros(120));
                }
                let c = rng.gen::<usize>() % u.cols.len();
                let k = 1 + rng.gen::<usize>() % u.nkeys;
                rec.push(json!({"e": "GetCall", "t": t, "c": c + 1, "k": k}));
                let got = catch(|| db.get(c as u8, u.key(c, k)));
                let v = match got {
                    Ok(Ok(None)) => 0,
                    Ok(Ok(Some(b))) => {
                        if u.cols[c].value_from_key() {
                            u.val_id(c, k, &b)
                        } else {
                            u.val_unique_id(c, k, &b)
                        }
                    },
                    Ok(Err(e)) => {
                        problems.lock().unwrap().push(format!("get error: {e}"));
                        -3
                    },
                    Err(p) => {
                        problems.lock().unwrap().push(format!("panic in get: {p}"));
                        -3
                    },
                };
                rec.push(json!({"e": "GetRet", "t": t, "v": v}));
                if rng.gen::<u32>() % 8 == 0 {
                    std::thread::yield_now();
                }
            }
        }));
    }
    for h in handles {
        let _ = h.join();
    }
    // let the workers make progress while readers keep reading (until nothing is queued and no index growth is
    // pending, at most 400 ms), then stop
    for _ in 0..40 {
        std::thread::sleep(std::time::Duration::from_millis(10));
        let growing = (0..u.cols.len()).any(|c| u.cols[c].collide && db.verif_dump(c as u8).map_or(false, |d| d.indexes.len() > 1));
        if db.verif_pipeline_sizes().0 == 0 && !growing {
            break
        }
    }
    std::thread::sleep(std::time::Duration::from_millis(20));
    stop.store(true, Ordering::SeqCst);
    for h in rhandles {
        let _ = h.join();
    }
    // drop (clean shutdown with workers) and reopen
    let db = match Arc::try_unwrap(db) {
        Ok(d) => d,
        Err(_) => {
            problems.lock().unwrap().push("harness: db still shared".into());
            return 2
        },
    };
    if let Err(p) = catch(move || drop(db)) {
        problems.lock().unwrap().push(format!("panic in drop: {p}"));
    } else {
        rec.push(json!({"e": "Closed"}));
        match catch(|| Db::open(&options(&dir, &u.cols, seed, false))) {
            Ok(Ok(nd)) => {
                rec.push(json!({"e": "Reopened"}));
                // final projection with unique value ids
                let mut obs = Vec::new();
                for c in 0..u.cols.len() {
                    let mut row = Vec::new();
                    for k in 1..=u.nkeys {
                        let v = match nd.get(c as u8, u.key(c, k)) {
                            Ok(None) => 0,
                            Ok(Some(b)) => {
                                if u.cols[c].value_from_key() {
                                    u.val_id(c, k, &b)
                                } else {
                                    u.val_unique_id(c, k, &b)
                                }
                            },
                            Err(_) => -3,
                        };
                        row.push(v);
                    }
                    obs.push(row);
                }
                rec.push(json!({"e": "Obs", "obs": obs}));
                counts_events(&nd, &u, &rec);
                let _ = catch(move || drop(nd));
            },
            Ok(Err(e)) => problems.lock().unwrap().push(format!("reopen: {e}")),
            Err(p) => problems.lock().unwrap().push(format!("panic in open: {p}")),
        }
    }
    rec.set_callback(None);
    Recorder::uninstall();
    let events = rec.take();
    write_trace(&args["out"], &events);
    let problems = problems.lock().unwrap().clone();
    println!("{}", json!({"events": events.len(), "problems": problems, "universe": u.describe()}));
    let _ = std::fs::remove_dir_all(&root);
    if problems.is_empty() {
        0
    } else {
        1
    }
}
