//! Projection of the raw structural dump (Db::verif_dump) to the abstract record that the
//! TLA+ structural invariants (spec/TracePdb.tla, DumpOK) are evaluated on.

use crate::common::*;
use parity_db::verif::{ColumnDump, TableDump};
use parity_db::Db;
use serde_json::{json, Value as J};

const MULTI_TIER: u8 = 255;

fn u64_at(b: &[u8], o: usize) -> u64 {
    if b.len() < o + 8 {
        return u64::MAX
    }
    u64::from_le_bytes(b[o..o + 8].try_into().unwrap())
}

/// slot kinds: free | head (complete entry in a fixed-size table) | mhead | mpart |
/// sized (multipart table: complete single entry or last part of a chain)
pub fn classify(t: &TableDump, slot: &[u8]) -> (&'static str, u64) {
    if slot.len() < 10 {
        return ("bad", 0)
    }
    if slot[0] == 0xff && slot[1] == 0xff {
        return ("free", u64_at(slot, 2))
    }
    if t.multipart {
        if slot[0] == 0xfd && (slot[1] == 0xff || slot[1] == 0x7f) {
            return ("mhead", u64_at(slot, 2))
        }
        if slot[0] == 0xfe && slot[1] == 0xff {
            return ("mpart", u64_at(slot, 2))
        }
        return ("sized", 0)
    }
    ("head", 0)
}

fn table_json(t: &TableDump) -> J {
    let slots: Vec<J> = t
        .slots
        .iter()
        .enumerate()
        .map(|(i, s)| {
            let (k, next) = classify(t, s);
            json!({"i": i + 1, "t": k, "next": if next > (1u64 << 30) { -1i64 } else { next as i64 }})
        })
        .collect();
    json!({"tier": t.tier, "filled": t.file_filled, "free_head": t.file_last_removed, "multipart": t.multipart,
           "mem_filled": t.mem_filled, "mem_free_head": t.mem_last_removed, "slots": slots})
}

/// payload of the entry stored at (tier, off): follows a multipart chain; `keyed` = the entry
/// carries a 26-byte key tail.  Returns (payload, slots visited) or None when malformed.
fn read_entry(d: &ColumnDump, tier: u8, off: u64, keyed: bool) -> Option<(Vec<u8>, Vec<(u8, u64)>)> {
    let t = d.tables.iter().find(|t| t.tier == tier && t.exists)?;
    let rc = if t.ref_counted { 4 } else { 0 };
    let key = if keyed { 26 } else { 0 };
    let mut out = Vec::new();
    let mut visited = Vec::new();
    let mut idx = off;
    let mut part = 0;
    loop {
        if idx == 0 || idx as usize > t.slots.len() || visited.len() > 100_000 {
            return None
        }
        let s = &t.slots[idx as usize - 1];
        visited.push((tier, idx));
        let (k, next) = classify(t, s);
        match k {
            "mhead" if part == 0 => {
                out.extend_from_slice(&s[10 + rc + key..]);
                idx = next;
            },
            "mpart" if part > 0 => {
                out.extend_from_slice(&s[10..]);
                idx = next;
            },
            "head" | "sized" => {
                let size = (u16::from_le_bytes([s[0], s[1]]) & 0x7fff) as usize;
                let start = 2 + if part == 0 { rc + key } else { 0 };
                if 2 + size > s.len() || start > 2 + size {
                    return None
                }
                out.extend_from_slice(&s[start..2 + size]);
                return Some((out, visited))
            },
            _ => return None,
        }
        part += 1;
    }
}

struct TreeWalk {
    keys: Vec<Vec<u8>>,
    leaf_depths: Vec<u32>,
    reach: Vec<(u8, u64)>,
    ok: bool,
}

fn walk_node(d: &ColumnDump, addr: u64, depth: u32, w: &mut TreeWalk) {
    if w.reach.len() > 200_000 {
        w.ok = false;
        return
    }
    let (tier, off) = ((addr & 0xff) as u8, addr >> 8);
    let (data, visited) = match read_entry(d, tier, off, false) {
        Some(x) => x,
        None => {
            w.ok = false;
            return
        },
    };
    w.reach.extend(visited);
    // child(8) [value(8) len(1)(+4) key]* ...
    let mut o = 0usize;
    let mut children: Vec<u64> = Vec::new();
    let mut seps: Vec<(Vec<u8>, u64)> = Vec::new();
    loop {
        if data.len() < o + 8 {
            w.ok = false;
            return
        }
        children.push(u64_at(&data, o));
        o += 8;
        if children.len() == 9 || o == data.len() {
            break
        }
        if data.len() < o + 9 {
            w.ok = false;
            return
        }
        let value = u64_at(&data, o);
        let mut len = data[o + 8] as usize;
        o += 9;
        if len == 255 {
            if data.len() < o + 4 {
                w.ok = false;
                return
            }
            len = u32::from_le_bytes(data[o..o + 4].try_into().unwrap()) as usize;
            o += 4;
        }
        if data.len() < o + len {
            w.ok = false;
            return
        }
        let key = data[o..o + len].to_vec();
        o += len;
        if value == 0 {
            break
        }
        seps.push((key, value));
    }
    let is_leaf = children.iter().all(|c| *c == 0);
    if is_leaf {
        w.leaf_depths.push(depth);
    }
    for i in 0..=seps.len() {
        if let Some(c) = children.get(i) {
            if *c != 0 {
                walk_node(d, *c, depth + 1, w);
            } else if !is_leaf {
                // an inner node must have a child on both sides of every separator
                w.ok = false;
            }
        }
        if i < seps.len() {
            let (k, v) = &seps[i];
            w.keys.push(k.clone());
            match read_entry(d, (v & 0xff) as u8, v >> 8, false) {
                Some((_, visited)) => w.reach.extend(visited),
                None => w.ok = false,
            }
        }
    }
}

/// Nested shape of the btree below `addr`: {"s": [keys as given by `rank`], "c": [children]} (leaf: "c" empty).
/// None when a node cannot be decoded.
pub fn shape_node(d: &ColumnDump, addr: u64, rank: &dyn Fn(&[u8]) -> i64, budget: &mut usize) -> Option<J> {
    if *budget == 0 {
        return None
    }
    *budget -= 1;
    let (tier, off) = ((addr & 0xff) as u8, addr >> 8);
    let (data, _) = read_entry(d, tier, off, false)?;
    let mut o = 0usize;
    let mut children: Vec<u64> = Vec::new();
    let mut seps: Vec<i64> = Vec::new();
    loop {
        if data.len() < o + 8 {
            return None
        }
        children.push(u64_at(&data, o));
        o += 8;
        if children.len() == 9 || o == data.len() {
            break
        }
        if data.len() < o + 9 {
            return None
        }
        let value = u64_at(&data, o);
        let mut len = data[o + 8] as usize;
        o += 9;
        if len == 255 {
            if data.len() < o + 4 {
                return None
            }
            len = u32::from_le_bytes(data[o..o + 4].try_into().unwrap()) as usize;
            o += 4;
        }
        if data.len() < o + len {
            return None
        }
        let key = &data[o..o + len];
        o += len;
        if value == 0 {
            break
        }
        seps.push(rank(key));
    }
    let is_leaf = children.iter().all(|c| *c == 0);
    let mut cs: Vec<J> = Vec::new();
    if !is_leaf {
        for i in 0..=seps.len() {
            match children.get(i) {
                Some(c) if *c != 0 => cs.push(shape_node(d, *c, rank, budget)?),
                // a missing child below an inner node: reported as a null child
                _ => cs.push(J::Null),
            }
        }
        // children stored beyond the last separator are part of the shape too (they must not exist)
        for c in children.iter().skip(seps.len() + 1) {
            if *c != 0 {
                cs.push(json!({"extra_child": *c}));
            }
        }
    }
    Some(json!({"s": seps, "c": cs}))
}

/// Abstract dump of column `c` as a trace event.
pub fn dump_event(db: &Db, u: &Universe, c: usize) -> Option<J> {
    let d = db.verif_dump(c as u8).ok()?;
    let tables: Vec<J> = d.tables.iter().filter(|t| t.exists).map(table_json).collect();
    let spec = &u.cols[c];
    let ballast = if spec.grow { 65 } else { 0 };
    if spec.is_btree() {
        let (root, depth) = d.btree.unwrap_or((0, 0));
        let mut w = TreeWalk { keys: vec![], leaf_depths: vec![], reach: vec![], ok: true };
        if root != 0 {
            walk_node(&d, root, 0, &mut w);
        }
        let ranks: Vec<i64> = w.keys.iter().map(|k| u.key_rank(c, k) as i64).collect();
        // byte order of the keys as stored (ranks are byte order of the universe)
        let sorted = w.keys.windows(2).all(|p| p[0] < p[1]);
        let reach: Vec<J> = w.reach.iter().map(|(t, o)| json!([*t, *o])).collect();
        return Some(json!({"e": "Dump", "c": c + 1, "kind": "btree", "tables": tables, "depth": depth, "root": root != 0,
                           "walk_ok": w.ok, "keys": ranks, "keys_sorted": sorted, "leaf_depths": w.leaf_depths,
                           "reach": reach, "ballast": 0}))
    }
    // hash column
    let mut entries: Vec<J> = Vec::new();
    for (g, ix) in d.indexes.iter().enumerate() {
        for (_chunk, _sub, _pk, tier, off) in ix.entries.iter() {
            entries.push(json!({"g": g + 1, "tier": tier, "off": off}));
        }
    }
    let gens: Vec<u8> = d.indexes.iter().map(|i| i.bits).collect();
    let _ = MULTI_TIER;
    Some(json!({"e": "Dump", "c": c + 1, "kind": "hash", "tables": tables, "index": entries, "gens": gens,
                "ballast": ballast}))
}
