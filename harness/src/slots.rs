//! Slots (C06 / C14 / C02): behaviours of spec/Slots.tla replayed with the ADDRESSES compared: fill mark and
//! free-list head in memory after every commit, file headers after every enacted record, and - whenever
//! everything is enacted - the chain of slots of every key and the order of every free list.

use crate::common::*;
use parity_db::{ColumnOptions, CompressionType, Db, Operation, Options};
use serde_json::{json, Value as J};
use std::collections::HashMap;
use std::io::Write;

// (lengths that fill their entry exactly: 62 + 2 + 26 = 90, 1514 + 28 = 1542 are entry sizes)
const FIXED_LEN: [usize; 2] = [62, 1514];

fn slot_key(k: u64) -> Vec<u8> {
    // uniform column, zero salt: the key is its own hash; bytes 6.. are stored with the value
    let mut key = vec![0u8; 32];
    key[0] = (k * 37) as u8;
    key[1] = (k * 11) as u8;
    key[2] = k as u8;
    for (i, b) in key.iter_mut().enumerate().skip(6) {
        *b = (k as u8).wrapping_mul(16).wrapping_add(i as u8);
    }
    key
}

fn pseudo(seed: u64, len: usize) -> Vec<u8> {
    let mut x = seed.wrapping_mul(0x9E3779B97F4A7C15) | 1;
    let mut v = Vec::with_capacity(len);
    while v.len() < len {
        x ^= x << 13;
        x ^= x >> 7;
        x ^= x << 17;
        v.extend_from_slice(&x.to_le_bytes());
    }
    v.truncate(len);
    v
}

/// value for a model kind: fixed tier t (1-based) or a chain of n parts of the multipart table
fn slot_value(nt: u64, t: u64, n: u64, seed: u64, compressed: bool, rc: usize) -> Vec<u8> {
    if t < nt {
        return pseudo(seed, FIXED_LEN[(t - 1) as usize % 2] - rc - (seed % 2) as usize)
    }
    // remainder R = len + 26 (key tail) takes n parts iff (n-1)*4086 + 8 < R <= (n-1)*4086 + 4094
    let n = n as usize;
    if !compressed {
        return pseudo(seed, (n - 1) * 4086 + 100 + (seed % 3000) as usize - 26 - rc)
    }
    // zeros, then an incompressible body aimed at the middle of the window (lz4 adds about 1 byte per 255 literals).
    // (The zeros come first: snappy looks for matches at growing strides while it finds none, so zeros BEHIND 40 KB
    // of noise are largely stored as literals and the value would take one part more than intended.)
    // (12 000 of them: the snappy FRAME format stores a chunk uncompressed unless it shrinks below 7/8, and a value
    // whose compressed form is not smaller is stored as it is)
    let mut v = vec![0u8; 12_000];
    v.extend(pseudo(seed, (n - 1) * 4086 + 1800 - 26 - rc));
    v
}

fn u64_at(b: &[u8], o: usize) -> u64 {
    if b.len() < o + 8 {
        return u64::MAX
    }
    u64::from_le_bytes(b[o..o + 8].try_into().unwrap())
}

struct TierMap {
    real: Vec<u8>, // model tier (1-based) -> real tier
}

/// `pdbh slots-replay --in F --out F [--variant lz4]`
pub fn cmd_slots_replay(args: &HashMap<String, String>) -> i32 {
    let input = std::fs::read_to_string(&args["in"]).expect("read");
    let variant = args.get("variant").cloned().unwrap_or_default();
    let compressed = variant == "lz4" || variant == "snappy";
    // counting column (Slots.tla RC): 4 more bytes per entry, the value is a function of the key
    let rc: usize = if variant == "rc" { 4 } else { 0 };
    let root = scratch_root();
    let mut outf = std::io::BufWriter::new(std::fs::File::create(&args["out"]).unwrap());
    let mut nviol = 0;
    for (idx, line) in input.lines().enumerate() {
        if line.trim().is_empty() {
            continue
        }
        let b: J = serde_json::from_str(line).unwrap();
        let steps = b["steps"].as_array().unwrap();
        let mut dir = fresh_dir(&root, &format!("sl{idx}"));
        let mut col = ColumnOptions { uniform: true, ..Default::default() };
        if variant == "lz4" {
            col.compression = CompressionType::Lz4;
        }
        if variant == "snappy" {
            col.compression = CompressionType::Snappy;
        }
        if rc > 0 {
            col.ref_counted = true;
            col.preimage = true;
        }
        let mk_opts = |d: &std::path::Path| -> Options {
            let mut o = Options::with_columns(d, 0);
            o.columns = vec![col.clone()];
            o.with_background_thread = false;
            o.always_flush = true;
            o.stats = false;
            o.salt = Some([0u8; 32]);
            o
        };
        let mut viol: Vec<J> = Vec::new();
        let mut full = 0usize;
        let mut cheads = 0usize;
        let mut dirs = vec![dir.clone()];
        let r: Result<(), String> = (|| {
            let mut db = Db::open_or_create(&mk_opts(&dir)).map_err(|e| format!("create: {e}"))?;
            let nt = steps[0]["x"]["mem"].as_array().unwrap().len() as u64;
            let d0 = db.verif_dump(0).map_err(|e| format!("dump: {e}"))?;
            let mut tm = TierMap { real: Vec::new() };
            for t in 1..nt {
                let len = FIXED_LEN[(t - 1) as usize % 2];
                let real = d0.tables.iter().find(|x| !x.multipart && (x.entry_size as usize) >= len + 2 + 26).map(|x| x.tier).ok_or("no tier")?;
                tm.real.push(real);
            }
            tm.real.push(255);
            let mut pending: Vec<(u8, Operation<Vec<u8>, Vec<u8>>)> = Vec::new();
            // records written and not yet synced: (log file, its length before the record was appended)
            let mut unsynced: Vec<(std::path::PathBuf, u64)> = Vec::new();
            let log_sizes = |d: &std::path::Path| -> Vec<(std::path::PathBuf, u64)> {
                let mut v: Vec<(std::path::PathBuf, u64)> = std::fs::read_dir(d).map(|rd| rd.flatten()
                    .filter(|e| e.file_name().to_string_lossy().starts_with("log"))
                    .map(|e| (e.path(), e.metadata().map(|m| m.len()).unwrap_or(0))).collect()).unwrap_or_default();
                v.sort();
                v
            };
            for (i, st) in steps.iter().enumerate() {
                let a = st["a"].as_str().unwrap();
                let x = &st["x"];
                let at = |what: &str| format!("step {} ({a}): {what}", i + 1);
                match a {
                    "set" => {
                        let k = st["k"].as_u64().unwrap();
                        let vseed = if rc > 0 { k * 7919 + 3 } else { (idx * 1000 + i) as u64 + 7 };
                        let v = slot_value(nt, st["t"].as_u64().unwrap(), st["n"].as_u64().unwrap(), vseed, compressed, rc);
                        pending.push((0, Operation::Set(slot_key(k), v)));
                        continue
                    },
                    "rem" => {
                        pending.push((0, Operation::Dereference(slot_key(st["k"].as_u64().unwrap()))));
                        continue
                    },
                    "end" => {
                        let ops = std::mem::take(&mut pending);
                        let before = log_sizes(&dir);
                        catch(|| db.commit_changes(ops)).map_err(|p| at(&format!("panic in commit: {p}")))?.map_err(|e| at(&format!("commit: {e}")))?;
                        catch(|| db.process_commits()).map_err(|p| at(&format!("panic in process_commits: {p}")))?.map_err(|e| at(&format!("process_commits: {e}")))?;
                        let after = log_sizes(&dir);
                        let grown: Vec<&(std::path::PathBuf, u64)> = after.iter().filter(|(p, l)| before.iter().find(|(q, _)| q == p).map(|(_, m)| *m).unwrap_or(0) < *l).collect();
                        if grown.len() != 1 {
                            return Err(format!("harness: {} log files grew while one record was appended", grown.len()))
                        }
                        let was = before.iter().find(|(q, _)| *q == grown[0].0).map(|(_, m)| *m).unwrap_or(0);
                        unsynced.push((grown[0].0.clone(), was));
                    },
                    "enact" => {
                        unsynced.clear();
                        db.flush_logs().map_err(|e| at(&format!("flush_logs: {e}")))?;
                        let mut done = false;
                        for _ in 0..6 {
                            if catch(|| enact_one_guarded(&db)).map_err(|p| at(&format!("panic in enact: {p}")))?.map_err(|e| at(&format!("enact: {e}")))? {
                                done = true;
                                break
                            }
                        }
                        if !done {
                            return Err(at("no record could be enacted although the specification has one logged"))
                        }
                    },
                    "clean" => {
                        unsynced.clear();
                        db.flush_logs().map_err(|e| at(&format!("flush_logs: {e}")))?;
                        db.clean_logs().map_err(|e| at(&format!("clean_logs: {e}")))?;
                    },
                    "crash" => {
                        // process crash: the files as they are; the old handle is abandoned
                        let img = fresh_dir(&root, &format!("sl{idx}_c{i}"));
                        copy_dir(&dir, &img).map_err(|e| at(&format!("image: {e}")))?;
                        let _ = std::fs::remove_file(img.join("lock"));
                        // power loss: the last j records, written and never synced, are gone from the log file
                        let j = st["k"].as_u64().unwrap_or(0) as usize;
                        if j > 0 {
                            if j > unsynced.len() {
                                return Err(format!("harness: the specification loses {j} unsynced records, {} are known", unsynced.len()))
                            }
                            let (path, len) = unsynced[unsynced.len() - j].clone();
                            if unsynced[unsynced.len() - j..].iter().any(|(p, _)| *p != path) {
                                return Err("harness: the unsynced records are spread over several log files".into())
                            }
                            let f = std::fs::OpenOptions::new().write(true).open(img.join(path.file_name().unwrap())).map_err(|e| at(&format!("image log: {e}")))?;
                            f.set_len(len).map_err(|e| at(&format!("image log: {e}")))?;
                        }
                        unsynced.clear();
                        let old = std::mem::replace(&mut db, catch(|| Db::open(&mk_opts(&img))).map_err(|p| at(&format!("panic in open: {p}")))?.map_err(|e| at(&format!("open after crash: {e}")))?);
                        std::mem::forget(old);
                        dir = img;
                        dirs.push(dir.clone());
                    },
                    other => return Err(format!("unknown step {other}")),
                }
                let d = catch(|| db.verif_dump(0)).map_err(|p| at(&format!("panic in dump: {p}")))?.map_err(|e| at(&format!("dump: {e}")))?;
                let table = |mt: usize| d.tables.iter().find(|t| t.tier == tm.real[mt]).unwrap();
                // fill mark and free-list head in memory
                for mt in 0..nt as usize {
                    let t = table(mt);
                    let want = (x["mem"][mt][0].as_u64().unwrap(), x["mem"][mt][1].as_u64().unwrap());
                    if (t.mem_filled, t.mem_last_removed) != want {
                        return Err(at(&format!("table {} (model tier {}): fill mark / free-list head in memory are {:?}, the specification says {:?}",
                            t.tier, mt + 1, (t.mem_filled, t.mem_last_removed), want)))
                    }
                    let wantf = (x["fh"][mt][0].as_u64().unwrap(), x["fh"][mt][1].as_u64().unwrap());
                    let have = if t.exists { (t.file_filled, t.file_last_removed) } else { (0, 0) };
                    if have != wantf {
                        return Err(at(&format!("table {} (model tier {}): the file header holds fill mark / free-list head {:?}, the specification says {:?}",
                            t.tier, mt + 1, have, wantf)))
                    }
                }
                if x["nlog"].as_u64().unwrap() != 0 {
                    continue
                }
                // everything is enacted: free lists and chains, slot by slot
                full += 1;
                for mt in 0..nt as usize {
                    let t = table(mt);
                    let mut fr = Vec::new();
                    let mut a = if t.exists { t.file_last_removed } else { 0 };
                    while a != 0 && fr.len() < 10_000 {
                        fr.push(a);
                        let s = match t.slots.get(a as usize - 1) {
                            Some(s) => s,
                            None => return Err(at(&format!("table {}: free list leaves the file at slot {a}", t.tier))),
                        };
                        if !(s[0] == 0xff && s[1] == 0xff) {
                            return Err(at(&format!("table {}: slot {a} is on the free list and is not a tombstone", t.tier)))
                        }
                        a = u64_at(s, 2);
                    }
                    let want: Vec<u64> = x["fr"][mt].as_array().unwrap().iter().map(|v| v.as_u64().unwrap()).collect();
                    if fr != want {
                        return Err(at(&format!("table {} (model tier {}): free list is {:?}, the specification says {:?}", t.tier, mt + 1, fr, want)))
                    }
                }
                let nk = x["ch"].as_array().unwrap().len();
                let mut have: Vec<(u64, Vec<u64>)> = vec![(0, Vec::new()); nk];
                let mut seen = 0usize;
                for ix in d.indexes.iter() {
                    for &(_c, _s, _p, tier, off) in ix.entries.iter() {
                        let mt = match tm.real.iter().position(|r| *r == tier) {
                            Some(m) => m,
                            None => return Err(at(&format!("index entry points into table {tier}, which no value of the behaviour uses"))),
                        };
                        let t = table(mt);
                        let mut chain = Vec::new();
                        let mut a = off;
                        let mut key_tail: Option<Vec<u8>> = None;
                        loop {
                            let s = match t.slots.get((a as usize).wrapping_sub(1)) {
                                Some(s) if a != 0 => s,
                                _ => return Err(at(&format!("table {tier}: chain from slot {off} leaves the file at slot {a}"))),
                            };
                            chain.push(a);
                            let multi = t.multipart && ((s[0] == 0xfd && (s[1] == 0xff || s[1] == 0x7f)) || (s[0] == 0xfe && s[1] == 0xff));
                            if chain.len() == 1 {
                                if s[0] == 0xff && s[1] == 0xff {
                                    return Err(at(&format!("index entry points at the free slot {off} of table {tier}")))
                                }
                                if s[0] == 0xfd && s[1] == 0x7f {
                                    cheads += 1;
                                }
                                key_tail = Some(if multi { s[10 + rc..36 + rc].to_vec() } else { s[2 + rc..28 + rc].to_vec() });
                            }
                            if !multi || chain.len() > 10_000 {
                                break
                            }
                            a = u64_at(s, 2);
                        }
                        let kt = key_tail.unwrap();
                        let k = (1..=nk as u64).find(|k| slot_key(*k)[6..] == kt[..]);
                        match k {
                            Some(k) => {
                                if !have[k as usize - 1].1.is_empty() {
                                    return Err(at(&format!("two index entries lead to values of key {k}")))
                                }
                                have[k as usize - 1] = (mt as u64 + 1, chain);
                                seen += 1;
                            },
                            None => return Err(at(&format!("index entry ({tier}, {off}) leads to a value of no key of the behaviour"))),
                        }
                    }
                }
                let _ = seen;
                for k in 0..nk {
                    let wt = x["ch"][k]["t"].as_u64().unwrap();
                    let ws: Vec<u64> = x["ch"][k]["s"].as_array().unwrap().iter().map(|v| v.as_u64().unwrap()).collect();
                    if have[k] != (wt, ws.clone()) {
                        return Err(at(&format!("key {}: stored in model tier {} at slots {:?}, the specification says tier {} slots {:?}",
                            k + 1, have[k].0, have[k].1, wt, ws)))
                    }
                    // and it reads back
                    let got = db.get(0, &slot_key(k as u64 + 1)).map_err(|e| at(&format!("get: {e}")))?;
                    if got.is_some() != (wt != 0) {
                        return Err(at(&format!("key {}: readable = {}, the specification says {}", k + 1, got.is_some(), wt != 0)))
                    }
                }
            }
            std::mem::forget(db);
            Ok(())
        })();
        if let Err(e) = r {
            viol.push(json!({"step": 0, "a": "Slots", "what": e}));
        }
        nviol += viol.len();
        writeln!(outf, "{}", json!({"i": idx, "nontrivial": full >= 3, "full_compares": full, "compressed_heads": cheads, "violations": viol})).unwrap();
        for d in dirs {
            let _ = std::fs::remove_dir_all(&d);
        }
    }
    let _ = std::fs::remove_dir_all(&root);
    if nviol > 0 {
        1
    } else {
        0
    }
}
