//! Shared pieces of the conformance harness: column configurations, the fixed
//! concretization of abstract keys / values (chosen before a run, never derived from
//! results), database options, projection of the implementation state, sparse directory
//! copies (crash images) and the event recorder.

use parity_db::{ColumnOptions, CompressionType, Db, Options};
use rand::{rngs::SmallRng, Rng, SeedableRng};
use serde_json::{json, Value as J};
use std::collections::HashMap;
use std::path::{Path, PathBuf};
use std::sync::{Arc, Mutex};

#[derive(Clone, Debug)]
pub struct ColSpec {
    /// "hash" | "rc" | "btree" | "btree_rc" | "multitree"
    pub kind: String,
    pub uniform: bool,
    pub preimage: bool,
    pub compression: String,
    pub threshold: Option<u32>,
    pub append_only: bool,
    pub direct: bool,
    /// the key universe must not contain the empty key (cursor runs: seek_to_first = rank 0)
    pub noempty: bool,
    /// run an index growth in this (uniform, zero salt) column before the history starts, so that
    /// log record ids and commit ids diverge and two index generations may coexist
    pub grow: bool,
    /// the universe keys themselves collide (uniform keys, zero salt): all share one 16-bit index
    /// chunk, groups of them agree on every bit the index stores and differ only in the key tail
    pub collide: bool,
    /// with `collide`: the keys also share the bits 16..18 of the hash, so that the index pages of the
    /// NEW generation overflow while a reindex batch fills them (growth triggered from a batch, two
    /// generations pending at once)
    pub deep: bool,
    /// with `collide`: every sixteenth key has ZERO in all the partial-key bits the vectorised page search compares
    /// (hash bits 16..48) and differs from its likes only in the bits that search drops (48..50): the cases in which
    /// the fast search must fall back to the exact one, on pages with freed slots
    pub zeropk: bool,
    /// every value is stored as a chain of parts (> 32 KiB); values whose ids have the same parity share their
    /// first 40 % byte for byte, so that overwriting A by B by C regularly has C equal to A (and different from B)
    /// in whole 4 KiB parts
    pub multi: bool,
}

impl ColSpec {
    pub fn from_json(j: &J) -> ColSpec {
        let kind = j["kind"].as_str().unwrap_or("hash").to_string();
        let rc = kind == "rc" || kind == "btree_rc";
        ColSpec {
            uniform: j["uniform"].as_bool().unwrap_or(false),
            preimage: j["preimage"].as_bool().unwrap_or(rc),
            compression: j["comp"].as_str().unwrap_or("none").to_string(),
            threshold: j["threshold"].as_u64().map(|x| x as u32),
            append_only: j["append_only"].as_bool().unwrap_or(false),
            direct: j["direct"].as_bool().unwrap_or(false),
            noempty: j["noempty"].as_bool().unwrap_or(false),
            grow: j["grow"].as_bool().unwrap_or(false),
            collide: j["collide"].as_bool().unwrap_or(false),
            deep: j["deep"].as_bool().unwrap_or(false),
            zeropk: j["zeropk"].as_bool().unwrap_or(false),
            multi: j["multi"].as_bool().unwrap_or(false),
            kind,
        }
    }
    pub fn is_rc(&self) -> bool {
        self.kind == "rc" || self.kind == "btree_rc"
    }
    pub fn is_btree(&self) -> bool {
        self.kind == "btree" || self.kind == "btree_rc"
    }
    pub fn is_multitree(&self) -> bool {
        self.kind == "multitree"
    }
    pub fn value_from_key(&self) -> bool {
        self.preimage || self.is_rc()
    }
    pub fn column_options(&self) -> ColumnOptions {
        ColumnOptions {
            preimage: self.preimage,
            uniform: self.uniform,
            ref_counted: self.is_rc() || (self.is_multitree() && !self.append_only && self.preimage),
            compression: match self.compression.as_str() {
                "lz4" => CompressionType::Lz4,
                "snappy" => CompressionType::Snappy,
                _ => CompressionType::NoCompression,
            },
            btree_index: self.is_btree(),
            multitree: self.is_multitree(),
            append_only: self.append_only,
            allow_direct_node_access: self.direct,
        }
    }
}

pub fn parse_cols(s: &str) -> Vec<ColSpec> {
    let j: J = serde_json::from_str(s).expect("cols json");
    j.as_array().expect("cols array").iter().map(ColSpec::from_json).collect()
}

pub const HASHED_KEY_LENS: [usize; 9] = [0, 1, 31, 32, 33, 250, 251, 300, 70_000];
pub const BTREE_KEY_LENS: [usize; 8] = [0, 1, 2, 17, 254, 255, 256, 1000];
pub const VALUE_SIZES: [usize; 16] =
    [0, 1, 5, 31, 32, 33, 127, 500, 4000, 4096, 4097, 5000, 32_760, 33_000, 70_000, 200_000];

/// The run's fixed tables rank -> key bytes and (key, value id) -> value bytes.
pub struct Universe {
    pub cols: Vec<ColSpec>,
    pub nkeys: usize,
    pub seed: u64,
    pub keys: Vec<Vec<Vec<u8>>>,
    /// small = only small sizes (fast bulk runs)
    pub small: bool,
    rev: Vec<HashMap<Vec<u8>, Vec<(usize, i64)>>>,
    pub nvals: usize,
    /// boundary mode (C06): value id v has length size_table[c][v-1], id embedded in the bytes
    pub size_table: Option<Vec<Vec<usize>>>,
}

/// entry sizes of the 255 fixed-size value tables (column.rs SIZES: log distribution 32..32760)
pub fn tier_sizes() -> Vec<usize> {
    let (start, end, n) = (32f64, 32760f64, 255usize);
    let factor = ((end.ln() - start.ln()) / (n - 1) as f64).exp();
    let mut s = start;
    let mut r = Vec::new();
    for _ in 0..n {
        r.push(s.round() as usize);
        s *= factor;
    }
    r
}

/// Value lengths at every boundary of the storage layout for a column kind: for each size tier
/// the largest value that fits, one less and one more; around the multipart part boundaries;
/// empty, tiny, and above 1 MiB.
pub fn boundary_sizes(spec: &ColSpec) -> Vec<usize> {
    let ovh = 2 + if spec.is_rc() { 4 } else { 0 } + if spec.is_btree() { 0 } else { 26 };
    let mut v: Vec<usize> = vec![0, 1, 2, 3, 4, 5];
    for e in tier_sizes() {
        if e > ovh + 1 {
            let cap = e - ovh;
            v.extend_from_slice(&[cap - 1, cap, cap + 1]);
        }
    }
    // multipart: first part holds 4096-2-8-(rc+key), middle parts 4086, the last up to 4094
    let first = 4096 - 10 - (ovh - 2);
    for n in 2..=5usize {
        let total = first + (n - 2) * 4086 + 4094;
        v.extend_from_slice(&[total - 1, total, total + 1, total - 4094, total - 4093]);
    }
    v.extend_from_slice(&[(1 << 20) + 1, 3_000_001]);
    v.sort();
    v.dedup();
    v
}

fn fill(rng: &mut SmallRng, len: usize, compressible: bool) -> Vec<u8> {
    let mut v = vec![0u8; len];
    if compressible {
        let pat: [u8; 4] = rng.gen();
        for (i, b) in v.iter_mut().enumerate() {
            *b = pat[(i / 64) % 4];
        }
    } else {
        rng.fill(&mut v[..]);
    }
    v
}

impl Universe {
    pub fn new(cols: Vec<ColSpec>, nkeys: usize, nvals: usize, seed: u64, small: bool) -> Universe {
        let mut keys = Vec::new();
        for (c, spec) in cols.iter().enumerate() {
            let mut rng = SmallRng::seed_from_u64(seed.wrapping_mul(1_000_003).wrapping_add(c as u64 * 7919 + 1));
            let mut ks: Vec<Vec<u8>> = Vec::new();
            let mut attempt = 0usize;
            while ks.len() < nkeys {
                let i = ks.len() + attempt;
                let k = if spec.collide {
                    // identity hash: bytes 0..8 are what the index sees (chunk = first 16+ bits, then the
                    // partial key); 16 distinct 64-bit prefixes, so with more keys several share all of it
                    let mut k = vec![0u8; 32];
                    // deep: a low page, so that the page of the newer generation lies below the reindex progress
                    // already made in the older one when the nested growth starts
                    k[0] = if spec.deep { 0x00 } else { 0xc0 };
                    k[1] = 0x11 + c as u8;
                    // separates the keys when the index grows to 17 / 18 bits (deep: to 19 / 20 bits)
                    k[2] = ((i % 4) as u8) << (if spec.deep { 4 } else { 6 });
                    k[3] = ((i / 4) % 4) as u8;
                    if spec.zeropk && i % 16 == 0 {
                        k[6] = (((i / 16) % 4) as u8) << 6;
                    }
                    let tail = fill(&mut rng, 24, false);
                    k[8..].copy_from_slice(&tail);
                    k
                } else if spec.uniform {
                    // (zero salt = the instrumentation-only identity hash, which takes exactly 32 bytes)
                    let zero_salt = cols.iter().any(|c| c.grow || c.collide);
                    let len = if (seed as usize + i) % 3 == 0 && !zero_salt { 40 } else { 32 };
                    fill(&mut rng, len, false)
                } else if spec.is_btree() {
                    let len = if small && nkeys > 64 {
                        1 + (rng.gen::<usize>() % 12)
                    } else {
                        BTREE_KEY_LENS[(seed as usize + i) % BTREE_KEY_LENS.len()]
                    };
                    let len = if len == 0 && spec.noempty { 3 } else { len };
                    let mut k = fill(&mut rng, len, false);
                    // a few keys that are prefixes of each other
                    if i % 5 == 4 && !ks.is_empty() {
                        let base = ks[ks.len() - 1].clone();
                        k = base;
                        k.push((i % 251) as u8);
                    }
                    k
                } else {
                    let len = if small && nkeys > 64 {
                        rng.gen::<usize>() % 40
                    } else {
                        HASHED_KEY_LENS[(seed as usize + i) % HASHED_KEY_LENS.len()]
                    };
                    fill(&mut rng, len, false)
                };
                if ks.contains(&k) {
                    attempt += 1;
                    continue
                }
                ks.push(k);
            }
            if spec.is_btree() {
                ks.sort();
            }
            keys.push(ks);
        }
        let mut u = Universe { cols, nkeys, seed, keys, small, rev: Vec::new(), nvals, size_table: None };
        // reverse table: value bytes -> (key rank, value id), per column
        for c in 0..u.cols.len() {
            let mut m: HashMap<Vec<u8>, Vec<(usize, i64)>> = HashMap::new();
            for k in 1..=nkeys {
                for v in 1..=nvals {
                    let b = u.val(c, k, v as i64);
                    m.entry(b).or_default().push((k, v as i64));
                }
            }
            u.rev.push(m);
        }
        u
    }

    /// rank of a key read back from the database (0 = not in the universe)
    pub fn key_rank(&self, c: usize, key: &[u8]) -> usize {
        self.keys[c].iter().position(|k| k.as_slice() == key).map(|i| i + 1).unwrap_or(0)
    }

    pub fn key(&self, c: usize, k: usize) -> &Vec<u8> {
        &self.keys[c][k - 1]
    }

    /// A key that no behaviour ever writes.
    pub fn never_key(&self, c: usize) -> Vec<u8> {
        let mut k = vec![0xEEu8; if self.cols[c].uniform { 32 } else { 19 }];
        k[0] = 0xAB;
        k
    }

    pub fn val_size(&self, c: usize, k: usize, v: i64) -> usize {
        let spec = &self.cols[c];
        let idx = if spec.value_from_key() {
            (self.seed as usize).wrapping_mul(3) + c * 5 + k * 7
        } else {
            (self.seed as usize).wrapping_mul(3) + c * 5 + (v as usize) * 3
        };
        if spec.multi {
            [33_000usize, 40_000, 70_000, 37_086, 100_000, 36_000, 33_000, 45_000][((v as usize) + k) % 8]
        } else if self.small {
            [0usize, 1, 5, 31, 32, 33, 127, 500][idx % 8]
        } else {
            VALUE_SIZES[idx % VALUE_SIZES.len()]
        }
    }

    /// Switch to boundary mode: nvals = number of boundary sizes of the widest column.
    pub fn with_boundary_sizes(cols: Vec<ColSpec>, nkeys: usize, seed: u64) -> Universe {
        let tables: Vec<Vec<usize>> = cols.iter().map(boundary_sizes).collect();
        let nvals = tables.iter().map(|t| t.len()).max().unwrap_or(1);
        let mut u = Universe::new(cols, nkeys, 0, seed, true);
        u.nvals = nvals;
        u.size_table = Some(tables);
        u
    }

    fn boundary_val(&self, c: usize, v: i64) -> Vec<u8> {
        let t = &self.size_table.as_ref().unwrap()[c];
        let size = t[(v as usize - 1) % t.len()];
        let mut rng = SmallRng::seed_from_u64(self.seed ^ ((c as u64) << 40) ^ ((v as u64) << 8) ^ 0x9999);
        let mut out = fill(&mut rng, size, v % 2 == 0);
        if size >= 4 {
            out[0..4].copy_from_slice(&(v as u32).to_le_bytes());
        }
        out
    }

    /// Bytes of abstract value `v` written to key `k` of column `c`.
    pub fn val(&self, c: usize, k: usize, v: i64) -> Vec<u8> {
        if self.size_table.is_some() && !self.cols[c].value_from_key() {
            return self.boundary_val(c, v)
        }
        let spec = &self.cols[c];
        let size = self.val_size(c, k, v);
        if spec.value_from_key() {
            // value determined by the key (preimage columns)
            let mut out = b"v:".to_vec();
            out.extend_from_slice(&self.keys[c][k - 1][..self.keys[c][k - 1].len().min(64)]);
            out.extend_from_slice(&(k as u32).to_le_bytes());
            let mut rng = SmallRng::seed_from_u64(self.seed ^ ((c as u64) << 32) ^ (k as u64));
            let extra = fill(&mut rng, size, k % 2 == 0);
            out.extend_from_slice(&extra);
            out
        } else {
            let mut rng = SmallRng::seed_from_u64(self.seed ^ ((c as u64) << 40) ^ ((v as u64) << 8) ^ 0x5555);
            let mut out = fill(&mut rng, size, v % 2 == 1 && !spec.multi);
            if spec.multi {
                let mut r2 = SmallRng::seed_from_u64(self.seed ^ ((c as u64) << 40) ^ (((v % 2) as u64) << 8) ^ 0x3333);
                let shared = fill(&mut r2, 13_000, false);
                out[..13_000].copy_from_slice(&shared);
            }
            // make values of different ids distinct even at equal sizes
            if out.len() >= 2 {
                out[0] = v as u8;
                out[1] = (v >> 8) as u8 ^ 0xA5;
            }
            out
        }
    }

    /// Value with a run-unique id `v` (concurrent runs: a read identifies its transaction).
    pub fn val_unique(&self, c: usize, _k: usize, v: i64) -> Vec<u8> {
        let sizes: &[usize] = if self.small { &[4, 9, 40, 200, 1000] } else { &[4, 9, 40, 200, 5000, 40_000] };
        let size = sizes[(v as usize + c) % sizes.len()];
        let mut rng = SmallRng::seed_from_u64(self.seed ^ ((c as u64) << 40) ^ ((v as u64) << 8) ^ 0x7777);
        let mut out = fill(&mut rng, size, v % 3 == 0);
        out[0..4].copy_from_slice(&(v as u32).to_le_bytes());
        out
    }

    pub fn val_unique_id(&self, c: usize, k: usize, bytes: &[u8]) -> i64 {
        if bytes.len() < 4 {
            return -1
        }
        let v = u32::from_le_bytes(bytes[0..4].try_into().unwrap()) as i64;
        if v > 0 && self.val_unique(c, k, v) == bytes {
            v
        } else {
            -1
        }
    }

    /// Abstract value id of the bytes read from key `k` (−1: bytes nobody wrote there).
    pub fn val_id(&self, c: usize, k: usize, bytes: &[u8]) -> i64 {
        if let (Some(t), false) = (&self.size_table, self.cols[c].value_from_key()) {
            let t = &t[c];
            if bytes.len() >= 4 {
                let v = u32::from_le_bytes(bytes[0..4].try_into().unwrap()) as i64;
                if v >= 1 && self.boundary_val(c, v) == bytes {
                    return v
                }
                return -1
            }
            // tiny values: identified by their length (each tiny length occurs once in the table)
            for (i, s) in t.iter().enumerate() {
                if *s == bytes.len() && self.boundary_val(c, i as i64 + 1) == bytes {
                    return i as i64 + 1
                }
            }
            return -1
        }
        if let Some(l) = self.rev[c].get(bytes) {
            for (kk, v) in l {
                if *kk == k || !self.cols[c].value_from_key() {
                    return *v
                }
            }
        }
        -1
    }

    pub fn describe(&self) -> J {
        json!({
            "seed": self.seed,
            "cols": self.cols.iter().map(|c| json!({"kind": c.kind, "uniform": c.uniform, "preimage": c.preimage, "comp": c.compression, "threshold": c.threshold})).collect::<Vec<_>>(),
            "key_lens": self.keys.iter().map(|ks| ks.iter().map(|k| k.len()).collect::<Vec<_>>()).collect::<Vec<_>>(),
        })
    }
}

pub fn options(path: &Path, cols: &[ColSpec], seed: u64, threads: bool) -> Options {
    let mut thr = HashMap::new();
    for (i, c) in cols.iter().enumerate() {
        if let Some(t) = c.threshold {
            thr.insert(i as u8, t);
        }
    }
    Options {
        path: path.into(),
        columns: cols.iter().map(|c| c.column_options()).collect(),
        sync_wal: true,
        sync_data: true,
        stats: seed % 2 == 0,
        salt: if cols.iter().any(|c| c.grow || c.collide) { Some([0u8; 32]) } else { None },
        compression_threshold: thr,
        with_background_thread: threads,
        always_flush: true,
    }
}

/// Index growth preamble for the columns marked `grow`: 65 keys that share one 16-bit index
/// chunk (uniform keys, zero salt = identity hash) overflow it; `finish` runs the reindex
/// batches to completion, otherwise the column is left with two index generations.
pub fn grow_preamble(db: &Db, cols: &[ColSpec], finish: bool) -> Result<(), String> {
    for (c, spec) in cols.iter().enumerate() {
        if !spec.grow {
            continue
        }
        let mut tx = Vec::new();
        for i in 0..65u32 {
            let mut key = vec![0u8; 32];
            key[0] = 0xfe;
            key[1] = 0xdc;
            key[2] = (i as u8) << 1;
            key[20] = 0x77;
            let val = if spec.value_from_key() { key.clone() } else { vec![9u8; 11] };
            tx.push((c as u8, key, Some(val)));
        }
        db.commit(tx).map_err(|e| format!("preamble commit: {e}"))?;
        db.process_commits().map_err(|e| format!("preamble: {e}"))?;
        db.flush_logs().map_err(|e| format!("preamble: {e}"))?;
        db.enact_logs().map_err(|e| format!("preamble: {e}"))?;
        if finish {
            for _ in 0..4 {
                db.process_reindex().map_err(|e| format!("preamble: {e}"))?;
                db.flush_logs().map_err(|e| format!("preamble: {e}"))?;
                db.enact_logs().map_err(|e| format!("preamble: {e}"))?;
            }
        }
        db.clean_logs().map_err(|e| format!("preamble: {e}"))?;
    }
    Ok(())
}

/// Visible state of all hash/btree columns: per column, per key rank: 0 = absent,
/// v = value id, −1 = foreign bytes, −2 = get_size disagrees, −3 = error.
pub fn project(db: &Db, u: &Universe) -> Vec<Vec<i64>> {
    let mut out = Vec::new();
    for c in 0..u.cols.len() {
        let mut row = Vec::new();
        if u.cols[c].is_multitree() {
            out.push(row);
            continue
        }
        for k in 1..=u.nkeys {
            let key = u.key(c, k);
            let r = match db.get(c as u8, key) {
                Ok(None) => match db.get_size(c as u8, key) {
                    Ok(None) => 0,
                    _ => -2,
                },
                Ok(Some(bytes)) => match db.get_size(c as u8, key) {
                    Ok(Some(n)) if n as usize == bytes.len() => u.val_id(c, k, &bytes),
                    _ => -2,
                },
                Err(_) => -3,
            };
            row.push(r);
        }
        // a key nobody writes must stay absent
        let nk = u.never_key(c);
        if !matches!(db.get(c as u8, &nk), Ok(None)) {
            row.push(-4);
        }
        out.push(row);
    }
    out
}

/// Reference counts of a drained hash rc column through value iteration:
/// rank -> count (keys are recognised through their value, which embeds the key).
pub fn project_counts(db: &Db, u: &Universe, c: usize) -> Option<Vec<i64>> {
    if u.cols[c].kind != "rc" {
        return None
    }
    let mut counts = vec![0i64; u.nkeys];
    let mut foreign = false;
    let mut byval: HashMap<Vec<u8>, usize> = HashMap::new();
    for k in 1..=u.nkeys {
        byval.insert(u.val(c, k, 1), k);
    }
    let r = db.iter_column_while(c as u8, |st| {
        match byval.get(&st.value) {
            Some(k) => counts[*k - 1] += st.rc as i64,
            None => foreign = true,
        }
        true
    });
    if r.is_err() || foreign {
        return Some(vec![-1; u.nkeys])
    }
    Some(counts)
}

// ---------------------------------------------------------------------------
// scratch directories and sparse copies

pub fn scratch_root() -> PathBuf {
    let base = std::env::var("VERIF_SCRATCH").unwrap_or_else(|_| {
        if Path::new("/dev/shm").is_dir() {
            format!("/dev/shm/verif.{}", std::process::id())
        } else {
            format!("/tmp/verif.{}", std::process::id())
        }
    });
    let p = PathBuf::from(base);
    std::fs::create_dir_all(&p).expect("scratch root");
    p
}

pub fn fresh_dir(root: &Path, name: &str) -> PathBuf {
    let p = root.join(name);
    let _ = std::fs::remove_dir_all(&p);
    std::fs::create_dir_all(&p).expect("fresh dir");
    p
}

/// Copy a regular file preserving holes (index files are 32 MiB sparse).
pub fn copy_sparse(src: &Path, dst: &Path) -> std::io::Result<()> {
    use std::os::unix::io::AsRawFd;
    let s = std::fs::File::open(src)?;
    let d = std::fs::OpenOptions::new().create(true).write(true).truncate(true).open(dst)?;
    let len = s.metadata()?.len();
    d.set_len(len)?;
    let sfd = s.as_raw_fd();
    let dfd = d.as_raw_fd();
    let mut pos: i64 = 0;
    let mut buf = vec![0u8; 1 << 16];
    while (pos as u64) < len {
        let data = unsafe { libc::lseek(sfd, pos, libc::SEEK_DATA) };
        if data < 0 {
            break
        }
        let mut hole = unsafe { libc::lseek(sfd, data, libc::SEEK_HOLE) };
        if hole < 0 {
            hole = len as i64;
        }
        let mut off = data;
        while off < hole {
            let n = ((hole - off) as usize).min(buf.len());
            let r = unsafe { libc::pread(sfd, buf.as_mut_ptr() as *mut _, n, off) };
            if r <= 0 {
                break
            }
            let mut w = 0isize;
            while w < r {
                let x = unsafe {
                    libc::pwrite(dfd, buf.as_ptr().offset(w) as *const _, (r - w) as usize, off + w as i64)
                };
                if x <= 0 {
                    return Err(std::io::Error::last_os_error())
                }
                w += x;
            }
            off += r as i64;
        }
        pos = hole;
    }
    Ok(())
}

/// Snapshot of a database directory = what a `kill -9` at this instant leaves on disk
/// (MAP_SHARED stores are in the page cache, unflushed BufWriter bytes are not).
pub fn copy_dir(src: &Path, dst: &Path) -> std::io::Result<()> {
    crate::sys::quiet(|| copy_dir_inner(src, dst))
}

fn copy_dir_inner(src: &Path, dst: &Path) -> std::io::Result<()> {
    let _ = std::fs::remove_dir_all(dst);
    std::fs::create_dir_all(dst)?;
    for e in std::fs::read_dir(src)? {
        let e = e?;
        if e.file_type()?.is_file() {
            let name = e.file_name();
            if name == "lock" {
                // the lock file carries no data; a fresh one is created by open
                continue
            }
            copy_sparse(&e.path(), &dst.join(&name))?;
        }
    }
    Ok(())
}

// ---------------------------------------------------------------------------
// event recorder

thread_local! {
    static TID: std::cell::Cell<u64> = std::cell::Cell::new(0);
    /// transaction the current thread is committing (joined with the CommitLin hook event)
    pub static PENDING_TX: std::cell::RefCell<Option<J>> = std::cell::RefCell::new(None);
}
static NEXT_TID: std::sync::atomic::AtomicU64 = std::sync::atomic::AtomicU64::new(1);

pub fn tid() -> u64 {
    TID.with(|t| {
        if t.get() == 0 {
            t.set(NEXT_TID.fetch_add(1, std::sync::atomic::Ordering::SeqCst));
        }
        t.get()
    })
}

/// copy `len` bytes at `off` of `src` into `dst` at the same offset; `dst` is created / extended (with holes) to `flen`
pub fn copy_range(src: &Path, dst: &Path, off: u64, len: u64, flen: u64) -> std::io::Result<()> {
    use std::os::unix::fs::FileExt;
    let s = std::fs::File::open(src)?;
    let d = std::fs::OpenOptions::new().write(true).create(true).open(dst)?;
    if d.metadata()?.len() < flen {
        d.set_len(flen)?;
    }
    let mut buf = vec![0u8; 1 << 16];
    let mut done = 0u64;
    while done < len {
        let n = ((len - done) as usize).min(buf.len());
        let got = s.read_at(&mut buf[..n], off + done)?;
        if got == 0 {
            break
        }
        d.write_all_at(&buf[..got], off + done)?;
        done += got as u64;
    }
    Ok(())
}

pub fn is_data_file(name: &str) -> bool {
    name.starts_with("table_") || name.starts_with("index_") || name.starts_with("refcount_")
}

/// write `bytes` as the whole content of `path`, leaving all-zero 4 KiB blocks as holes
pub fn write_sparse(path: &Path, bytes: &[u8]) -> std::io::Result<()> {
    use std::io::{Seek, SeekFrom, Write};
    let mut f = std::fs::OpenOptions::new().write(true).create(true).truncate(true).open(path)?;
    f.set_len(bytes.len() as u64)?;
    for (i, chunk) in bytes.chunks(4096).enumerate() {
        if chunk.iter().any(|b| *b != 0) {
            f.seek(SeekFrom::Start((i * 4096) as u64))?;
            f.write_all(chunk)?;
        }
    }
    Ok(())
}

pub type Callback = Arc<dyn Fn(&str, &[u64], usize) + Send + Sync>;

/// Records hook events (emitted by parity-db inside its critical sections) and client
/// events of the harness in one totally ordered list.  The position in the list is the
/// sequence number; it is assigned while holding the recorder mutex, i.e. still inside the
/// critical section that made the reported change visible.
pub struct DurableState {
    pub db_dir: PathBuf,
    pub shadow: PathBuf,
    pub log_synced: HashMap<String, u64>,
}

impl DurableState {
    /// start tracking a directory whose present content is on stable storage
    pub fn new(db_dir: PathBuf, shadow: PathBuf) -> DurableState {
        let mut log_synced = HashMap::new();
        if let Ok(rd) = std::fs::read_dir(&db_dir) {
            for e in rd.flatten() {
                let name = e.file_name().to_string_lossy().to_string();
                if name.starts_with("log") {
                    log_synced.insert(name, e.metadata().map(|m| m.len()).unwrap_or(0));
                } else if is_data_file(&name) {
                    // baseline: what the file holds now is durable.  Without it a file that is stored to but not
                    // msynced since tracking began would always be taken "as it is now"
                    let _ = crate::sys::quiet(|| copy_sparse(&e.path(), &shadow.join(&name)));
                }
            }
        }
        DurableState { db_dir, shadow, log_synced }
    }
    /// Turn the process-crash image `img` (a copy of the directory) into what a power loss may leave: every
    /// table file either as it is or as it was at its last msync, every log file cut somewhere between its
    /// synced length and its current length.  `pick(n)` draws a number below n.
    pub fn apply_power_loss(&self, img: &Path, pick: &mut dyn FnMut(u64) -> u64) -> std::io::Result<u64> {
        let mut changed = 0;
        for e in std::fs::read_dir(img)? {
            let e = e?;
            let name = e.file_name().to_string_lossy().to_string();
            if name.starts_with("log") {
                let cur = e.metadata()?.len();
                // (a log file that was never synced since it appeared may be gone altogether)
                let synced = self.log_synced.get(&name).copied().unwrap_or(0).min(cur);
                let keep = match pick(3) {
                    0 => synced,
                    1 => cur,
                    _ => synced + pick(cur - synced + 1),
                };
                if keep < cur {
                    std::fs::OpenOptions::new().write(true).open(e.path())?.set_len(keep)?;
                    changed += 1;
                }
                if std::env::var("PDBH_DEBUG").is_ok() {
                    eprintln!("powerloss: {name} cur={cur} synced={synced} keep={keep}");
                }
            } else if is_data_file(&name) {
                // the durable version of the file: as at its last msync (or when tracking began); a file that
                // appeared later and was never msynced has no durable content at all (its length is assumed
                // durable, like every directory operation: all zero)
                let sh = self.shadow.join(&name);
                let cur = std::fs::read(e.path())?;
                let mut old = if sh.exists() { std::fs::read(&sh)? } else { Vec::new() };
                old.resize(cur.len(), 0);
                if old == cur {
                    continue
                }
                // whole file synced / whole file current / any mix of 4 KiB pages
                let mode = pick(4);
                let mut img_bytes = cur.clone();
                let mut dropped = 0u64;
                const PAGE: usize = 4096;
                let npages = (cur.len() + PAGE - 1) / PAGE;
                for pg in 0..npages {
                    let (a, b) = (pg * PAGE, ((pg + 1) * PAGE).min(cur.len()));
                    if old[a..b] == cur[a..b] {
                        continue
                    }
                    let take_old = match mode {
                        0 => true,
                        1 => false,
                        _ => pick(2) == 0,
                    };
                    if take_old {
                        img_bytes[a..b].copy_from_slice(&old[a..b]);
                        dropped += 1;
                    }
                }
                if dropped > 0 {
                    write_sparse(&e.path(), &img_bytes)?;
                    changed += 1;
                }
                if std::env::var("PDBH_DEBUG").is_ok() {
                    eprintln!("powerloss: {name} mode={mode} pages reverted to the last msynced version: {dropped} (shadow exists: {})", sh.exists());
                }
            }
        }
        Ok(changed)
    }
}

pub struct Recorder {
    /// table files stored to since their last msync (only to drop no-op msync events)
    /// (with the byte range stored to: an msync cleans a file only if it covers that range)
    dirty: Mutex<HashMap<String, (u64, u64)>>,
    /// power-loss images: the database directory being observed, a shadow directory holding every table /
    /// index / ref-count file as it was at its last successful msync, and the synced length of every log file
    pub durable: Mutex<Option<DurableState>>,
    pub events: Mutex<Vec<J>>,
    pub callback: Mutex<Option<Callback>>,
    pub enabled: std::sync::atomic::AtomicBool,
}

impl Recorder {
    pub fn install() -> Arc<Recorder> {
        let r = Arc::new(Recorder {
            dirty: Mutex::new(Default::default()),
            durable: Mutex::new(None),
            events: Mutex::new(Vec::new()),
            callback: Mutex::new(None),
            enabled: std::sync::atomic::AtomicBool::new(true),
        });
        let r2 = r.clone();
        parity_db::verif::set_sink(Some(Arc::new(move |name: &'static str, args: &[u64]| {
            r2.hook(name, args);
        })));
        let r3 = r.clone();
        crate::sys::set_observer(Some(Arc::new(move |call: &str, name: &str, ret: i64| {
            r3.sys(call, name, ret);
        })));
        r
    }
    pub fn uninstall() {
        parity_db::verif::set_sink(None);
        crate::sys::set_observer(None);
    }
    /// a file operation reported by the interposed libc entry points
    fn sys(&self, call: &str, name: &str, ret: i64) {
        let watched = name.starts_with("log") || name.starts_with("table_") || name.starts_with("index_") || name.starts_with("refcount_");
        if !watched {
            return
        }
        // what is on stable storage now
        if ret == 0 {
            let mut g = self.durable.lock().unwrap();
            if let Some(d) = g.as_mut() {
                if call == "msync" && !name.starts_with("log") {
                    // only the byte range the call covered is durable now (a mapping is longer than its file: a
                    // range that reaches the end of the file is the whole file)
                    let (off, len) = crate::sys::MSYNC_RANGE.with(|m| m.get());
                    let flen = std::fs::metadata(d.db_dir.join(name)).map(|m| m.len()).unwrap_or(0);
                    if off == 0 && len >= flen {
                        let _ = crate::sys::quiet(|| copy_sparse(&d.db_dir.join(name), &d.shadow.join(name)));
                    } else {
                        let _ = crate::sys::quiet(|| copy_range(&d.db_dir.join(name), &d.shadow.join(name), off, len.min(flen.saturating_sub(off)), flen));
                    }
                } else if (call == "fdatasync" || call == "fsync") && name.starts_with("log") {
                    if let Ok(m) = std::fs::metadata(d.db_dir.join(name)) {
                        d.log_synced.insert(name.to_string(), m.len());
                    }
                } else if call == "unlink" {
                    d.log_synced.remove(name);
                    let _ = crate::sys::quiet(|| std::fs::remove_file(d.shadow.join(name)));
                }
            }
        }
        // an msync of a file with no store since its last msync changes nothing in the trace spec
        // (the dirty set): leave it out, a clean-up pass msyncs every table of every column
        let mut call = call;
        if call == "msync" && ret == 0 {
            let mut d = self.dirty.lock().unwrap();
            match d.get(name).copied() {
                None => return,
                Some((lo, hi)) => {
                    let (off, len) = crate::sys::MSYNC_RANGE.with(|m| m.get());
                    if off <= lo && off.saturating_add(len) >= hi {
                        d.remove(name);
                    } else {
                        // stores beyond the range are not durable: the trace specification does not know this
                        // event, the file stays dirty there and the next log truncation is rejected
                        call = "msync_partial";
                        if std::env::var("PDBH_DEBUG").is_ok() {
                            eprintln!("msync_partial {name}: msync covers {off}+{len}, stores {lo}..{hi}");
                        }
                    }
                },
            }
        }
        let mut pos = 0usize;
        if self.enabled.load(std::sync::atomic::Ordering::Relaxed) {
            let mut ev = self.events.lock().unwrap();
            ev.push(json!({"e": "Sys", "call": call, "f": name, "ret": ret, "log": name.starts_with("log"), "t": tid()}));
            pos = ev.len();
        }
        let cb = self.callback.lock().unwrap().clone();
        if let Some(cb) = cb {
            // (the name tells which call on which file returned: crash images can be aimed at it)
            cb(&format!("Sys:{call}:{name}"), &[], pos);
        }
    }
    fn hook(&self, name: &str, args: &[u64]) {
        let mut pos = 0usize;
        if self.enabled.load(std::sync::atomic::Ordering::Relaxed) {
            let mut ev = self.events.lock().unwrap();
            if name == "TabWrite" {
                let id = args[1];
                let f = match args[0] {
                    1 => format!("table_{:02}_{:02x}", id >> 8, id & 0xff),
                    2 => format!("index_{:02}_{}", id >> 8, id & 0xff),
                    _ => format!("refcount_{:02}_{}", id >> 8, id & 0xff),
                };
                // a run of stores to the same file is one event (the trace spec only needs which
                // file was dirtied while which record was being applied)
                {
                    let (lo, hi) = if args[0] == 1 && args.len() >= 4 { (args[2], args[2] + args[3]) } else { (u64::MAX, 0) };
                    let mut d = self.dirty.lock().unwrap();
                    let e = d.entry(f.clone()).or_insert((lo, hi));
                    e.0 = e.0.min(lo);
                    e.1 = e.1.max(hi);
                }
                let same = ev.last().map_or(false, |l| l["e"] == "TabWrite" && l["f"] == f.as_str() && l["t"] == tid());
                if !same {
                    ev.push(json!({"e": name, "a": args, "f": f, "t": tid()}));
                }
            } else if name == "CommitLin" {
                let tx = PENDING_TX.with(|p| p.borrow_mut().take()).unwrap_or(J::Null);
                ev.push(json!({"e": "Commit", "cid": args[0], "tx": tx, "t": tid()}));
            } else {
                ev.push(json!({"e": name, "a": args, "t": tid()}));
            }
            pos = ev.len();
        }
        let cb = self.callback.lock().unwrap().clone();
        if let Some(cb) = cb {
            cb(name, args, pos);
        }
    }
    pub fn push(&self, j: J) {
        if self.enabled.load(std::sync::atomic::Ordering::Relaxed) {
            self.events.lock().unwrap().push(j);
        }
    }
    pub fn set_enabled(&self, on: bool) {
        self.enabled.store(on, std::sync::atomic::Ordering::SeqCst);
    }
    pub fn set_callback(&self, cb: Option<Callback>) {
        *self.callback.lock().unwrap() = cb;
    }
    pub fn truncate(&self, n: usize) {
        self.events.lock().unwrap().truncate(n);
    }
    pub fn take(&self) -> Vec<J> {
        std::mem::take(&mut *self.events.lock().unwrap())
    }
    pub fn len(&self) -> usize {
        self.events.lock().unwrap().len()
    }
}

/// One enact step for single-threaded drivers: an enact call WAITS for the cleanup worker when more
/// than MAX_LOG_FILES logs are dirty; with no worker threads the driver cleans first.
pub fn enact_one_guarded(db: &Db) -> parity_db::Result<bool> {
    if db.verif_pipeline_sizes().2 >= 4 {
        db.clean_logs()?;
    }
    db.verif_enact_one()
}

pub fn catch<R>(f: impl FnOnce() -> R) -> Result<R, String> {
    match std::panic::catch_unwind(std::panic::AssertUnwindSafe(f)) {
        Ok(r) => Ok(r),
        Err(e) => Err(if let Some(s) = e.downcast_ref::<&str>() {
            s.to_string()
        } else if let Some(s) = e.downcast_ref::<String>() {
            s.clone()
        } else {
            "panic".to_string()
        }),
    }
}

pub fn hash_str(s: &str) -> u64 {
    let mut h: u64 = 0xcbf29ce484222325;
    for b in s.bytes() {
        h ^= b as u64;
        h = h.wrapping_mul(0x100000001b3);
    }
    h
}
